"""Contracts for ciw/routing/routing.py (C09): every router returns a node the routing specification allows."""
from . import add

IND = "obj:Individual"
OUT = "obj:Node|ExitNode"


def declare(spec):
    from .typesdecl import F
    from .c_node import INV
    M = spec.macros
    # the simulation a router belongs to has nodes [arrival, 1..N, exit]
    M["router_sim_ok"] = ("lambda r: len(r.simulation.nodes) == nnodes() + 2 and nnodes() >= 1 and "
                          "forall_int(lambda k: implies(1 <= k and k <= nnodes() + 1, is_obj(r.simulation.nodes[k], 'Node|ExitNode')), "
                          "trigger=lambda k: r.simulation.nodes[k])")
    M["valid_dest"] = "lambda d: (1 <= d and d <= nnodes()) or d == -1"

    add(spec, "NodeRouting.next_node", types={"ind": IND}, returns=OUT, modifies=["$seq[Route]", "route@ind", "gen_pos"], allocates=True,
        requires=[INV("router_sim_ok(self)")],
        assumed=True, ensures=[("router-result-is-a-node-of-this-simulation", "result in self.simulation.nodes")],
        note="class-level contract of the per-node routers; each repo router is verified against it below")

    add(spec, "Direct.next_node", types={"ind": IND}, refines="NodeRouting.next_node",
        requires=[INV("router_sim_ok(self)"), "valid_dest(self.to)"],
        returns=OUT, modifies=[],
        ensures=[("C09:direct-router-is-deterministic", "ref_eq(result, self.simulation.nodes[self.to if self.to >= 0 else len(self.simulation.nodes) - 1])")],
        props=["C09"])
    add(spec, "Leave.next_node", types={"ind": IND}, refines="NodeRouting.next_node",
        requires=[INV("router_sim_ok(self)")], returns=OUT, modifies=[],
        ensures=[("C09:leave-router-sends-to-the-exit", "ref_eq(result, self.simulation.nodes[len(self.simulation.nodes) - 1])")],
        props=["C09"])
    add(spec, "Probabilistic.next_node", types={"ind": IND}, refines="NodeRouting.next_node",
        requires=[INV("router_sim_ok(self)"), "len(self.destinations) > 0 and len(self.probs) == len(self.destinations)",
                  INV("forall_in(self.probs, lambda q: is_fin(q) and q >= 0) and sum_r(self.probs) == 1"),
                  INV("forall_in(self.destinations, lambda d: valid_dest(d))")],
        returns=OUT, modifies=[], allocates=True,
        ensures=[("C09:transitions-of-probability-zero-never-occur",
                  "exists_int(lambda k: 0 <= k and k < len(self.destinations) and self.probs[k] > 0 and "
                  "ref_eq(result, self.simulation.nodes[self.destinations[k] if self.destinations[k] >= 0 else len(self.simulation.nodes) - 1]), "
                  "trigger=lambda k: self.destinations[k])")],
        props=["C09"])

    add(spec, "ProcessBased.next_node", types={"ind": IND, "node_id": "int"}, refines="NetworkRouting.next_node",
        requires=[INV("router_sim_ok(self)"), "has(ind, 'route')",
                  INV("forall_in(ind.route, lambda d: is_int(d) and valid_dest(d))")],
        returns=OUT, modifies=["$seq@ind.route"], allocates=True,
        ensures=[
            ("C09:process-based-routes-are-followed-node-by-node-in-order",
             "implies(old(len(ind.route)) > 0, S(ind.route) == remove_at(old(S(ind.route)), 0) and "
             "ref_eq(result, self.simulation.nodes[old(ind.route[0]) if old(ind.route[0]) >= 0 else len(self.simulation.nodes) - 1]))"),
            ("C09:then-the-customer-leaves",
             "implies(old(len(ind.route)) == 0, ref_eq(result, self.simulation.nodes[len(self.simulation.nodes) - 1]) and len(ind.route) == 0)"),
        ],
        props=["C09"])

    M["qsize_jsq"] = "lambda r, d: r.simulation.nodes[d].number_of_individuals - r.simulation.nodes[d].number_in_service"
    for cls, size, what in [("JoinShortestQueue", "qsize_jsq(self, {d})", "waiting-line"),
                            ("LoadBalancing", "self.simulation.nodes[{d}].number_of_individuals", "population")]:
        add(spec, cls + ".next_node" if cls == "JoinShortestQueue" else cls + "::JoinShortestQueue.next_node", types={"ind": IND}, refines="NodeRouting.next_node",
            requires=[INV("router_sim_ok(self)"), "len(self.destinations) > 0",
                      INV("forall_in(self.destinations, lambda d: 1 <= d and d <= nnodes() and is_obj(self.simulation.nodes[d], 'Node'))"),
                      "self.tie_break == 'random' or self.tie_break == 'order'"],
            returns=OUT, modifies=[], allocates=True,
            ensures=[("C09:sent-to-a-listed-destination-with-minimal-" + what,
                      "exists_in(self.destinations, lambda d: ref_eq(result, self.simulation.nodes[d]) and "
                      "forall_in(self.destinations, lambda e: " + size.format(d="d") + " <= " + size.format(d="e") + "))")],
            loop_invariants={0: [
                "is_intlike(shortest_queue_size) or is_pinf(shortest_queue_size)",
                "implies(_i > 0, len(shortest_queues) > 0 and not is_pinf(shortest_queue_size))",
                "implies(_i == 0, is_pinf(shortest_queue_size))",
                "forall_int(lambda j: implies(0 <= j and j < _i, shortest_queue_size <= " + size.format(d="_it[j]") + "), trigger=lambda j: _it[j])",
                "forall_in(shortest_queues, lambda d: d in self.destinations and " + size.format(d="d") + " == shortest_queue_size)",
            ]},
            props=["C09"])

    add(spec, "Cycle.next_node", types={"ind": IND}, refines="NodeRouting.next_node",
        requires=[INV("router_sim_ok(self)"), "len(self.cycle) > 0", INV("forall_in(self.cycle, lambda d: valid_dest(d))"),
                  INV("gen_pos(self.generator) >= 0")],
        returns=OUT, modifies=["gen_pos@self.generator"],
        ensures=[("C09:cycle-router-is-deterministic-and-follows-the-cycle-in-order",
                  "ref_eq(result, self.simulation.nodes[self.cycle[old(gen_pos(self.generator)) % len(self.cycle)] "
                  "if self.cycle[old(gen_pos(self.generator)) % len(self.cycle)] >= 0 else len(self.simulation.nodes) - 1])"),
                 ("C09:one-step-along-the-cycle", "gen_pos(self.generator) == old(gen_pos(self.generator)) + 1")],
        props=["C09"])

    # ---- NodeRouting defaults and NetworkRouting delegation
    for m in ["next_node_for_rerouting", "next_node_for_jockeying"]:
        add(spec, "NodeRouting." + m, types={"ind": IND}, requires=[INV("router_sim_ok(self)")] , returns=OUT,
            modifies=(["$seq[Route]", "route@ind", "gen_pos"] if m == "next_node_for_rerouting" else []), allocates=True,
            ensures=[("router-result-is-a-node-of-this-simulation", "result in self.simulation.nodes")]
            + ([("C13:jockeying-default-is-to-leave", "ref_eq(result, self.simulation.nodes[len(self.simulation.nodes) - 1])")] if m == "next_node_for_jockeying" else []),
            props=["C09", "C13"])
    M["net_router_ok"] = ("lambda r: len(r.simulation.nodes) == nnodes() + 2 and nnodes() >= 1 and len(r.routers) == nnodes() and "
                          "forall_in(r.routers, lambda q: ref_eq(q.simulation, r.simulation) and not cls_is(q, 'NodeRouting'))")
    for m in ["next_node", "next_node_for_rerouting", "next_node_for_jockeying"]:
        add(spec, "NetworkRouting." + m, types={"ind": IND, "node_id": "int"},
            requires=[INV("net_router_ok(self)"), ("node-id-of-a-service-node", "1 <= node_id and node_id <= nnodes()")],
            returns=OUT, modifies=["$seq[Route]", "route@ind", "gen_pos"], allocates=True,
            ensures=[("router-result-is-a-node-of-this-simulation", "result in self.simulation.nodes")],
            expect_calls={m: 1},        # pure delegation to the node router of that node, asked exactly once
            props=["C09"])
    for m in ["next_node_for_rerouting", "next_node_for_jockeying"]:
        add(spec, "ProcessBased." + m, types={"ind": IND, "node_id": "int"}, refines="NetworkRouting." + m,
            requires=[INV("router_sim_ok(self)"), "has(ind, 'route')", INV("forall_in(ind.route, lambda d: is_int(d) and valid_dest(d))")],
            returns=OUT, modifies=(["$seq@ind.route"] if m == "next_node_for_rerouting" else []), allocates=True,
            ensures=[("router-result-is-a-node-of-this-simulation", "result in self.simulation.nodes")]
            + ([("C13:jockeying-default-is-to-leave", "ref_eq(result, self.simulation.nodes[len(self.simulation.nodes) - 1])")] if m == "next_node_for_jockeying" else []),
            props=["C09", "C13"])

    # NodeRouting.next_node_for_rerouting is inherited by every built-in node router: verified once per receiver class,
    # under that router's own precondition
    for rc in ["Probabilistic", "Direct", "Leave", "JoinShortestQueue", "LoadBalancing", "Cycle"]:
        src = spec.contracts.get(rc + ".next_node") or spec.contracts.get(rc + "::JoinShortestQueue.next_node")
        add(spec, rc + "::NodeRouting.next_node_for_rerouting", types={"ind": IND}, requires=list(src.requires), returns=OUT,
            modifies=list(src.modifies), allocates=True,
            ensures=[("C09:rerouting-uses-the-same-rule-as-routing", e) for (_, e) in src.ensures if "gen_pos" not in e]
            + [("router-result-is-a-node-of-this-simulation", "result in self.simulation.nodes")],
            props=["C09"])

    # every built-in node router re-proves the class-level postcondition it refines
    for key, c in list(spec.contracts.items()):
        if (c.refines or "") in ("NodeRouting.next_node", "NetworkRouting.next_node") and not c.assumed:
            c.ensures.append(("refines:router-result-is-a-node-of-this-simulation", "result in self.simulation.nodes"))
