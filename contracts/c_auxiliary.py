from . import add


def declare(spec):
    add(spec, "random_choice",
        types={"array": "list:Any", "probs": "opt:list:Any"},
        requires=[
            "len(array) > 0",
            "implies(probs is not None, len(probs) == len(array))",
            "implies(probs is not None, forall_in(probs, lambda q: is_fin(q) and q >= 0))",
            "implies(probs is not None, sum_r(probs) == 1)",
        ],
        ensures=[
            ("member", "result in array"),
            ("C09:zero-probability-never-chosen",
             "implies(probs is not None, exists_int(lambda k: 0 <= k and k < len(array) and ref_eq(array[k], result) and probs[k] > 0, trigger=lambda k: array[k]))"),
        ],
        returns="val",
        modifies=[], allocates=True,
        loop_invariants={0: [
            "0 <= i and i < len(probs)",
            "is_fin(p) and real(p) == psum(probs, i + 1)",
            "forall_int(lambda j: implies(0 <= j and j < i, rdm_num >= psum(probs, j + 1)))",
        ]},
        props=["C09"])
    add(spec, "FIFO", types={"individuals": "list:Any"}, requires=["len(individuals) > 0"],
        ensures=[("C08:fifo-head", "ref_eq(result, individuals[0])")], returns="val", props=["C08"])
    add(spec, "LIFO", types={"individuals": "list:Any"}, requires=["len(individuals) > 0"],
        ensures=[("C08:lifo-tail", "ref_eq(result, individuals[len(individuals) - 1])")], returns="val", props=["C08"])
    add(spec, "SIRO", types={"individuals": "list:Any"}, requires=["len(individuals) > 0"],
        ensures=[("C08:siro-member", "result in individuals")], returns="val", allocates=True, props=["C08"])
    add(spec, "flatten_list", types={"list_of_lists": "list:Any"},
        requires=["forall_in(list_of_lists, lambda l: is_ref(l))"], ensures=[], returns="list:Any", allocates=True)
