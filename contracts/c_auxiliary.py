from . import add


def declare(spec):
    add(spec, "random_choice",
        types={"array": "list:Any", "probs": "opt:list:Any"},
        requires=[
            "len(array) > 0",
            "implies(probs is not None, len(probs) == len(array))",
            "implies(probs is not None, forall_in(probs, lambda q: is_fin(q) and q >= 0))",
            "implies(probs is not None, sum_r(probs) == 1)",
        ],
        ensures=[
            ("member", "result in array"),
            ("C09:zero-probability-never-chosen",
             "implies(probs is not None, exists_int(lambda k: 0 <= k and k < len(array) and ref_eq(array[k], result) and probs[k] > 0, trigger=lambda k: array[k]))"),
        ],
        returns="val",
        modifies=[], allocates=True,
        loop_invariants={0: [
            "0 <= i and i < len(probs)",
            "is_fin(p) and real(p) == psum(probs, i + 1)",
            "forall_int(lambda j: implies(0 <= j and j < i, rdm_num >= psum(probs, j + 1)))",
        ]},
        props=["C09"])
    add(spec, "FIFO", types={"individuals": "list:Any"}, requires=["len(individuals) > 0"],
        ensures=[("C08:fifo-head", "ref_eq(result, individuals[0])")], returns="val", props=["C08"])
    add(spec, "LIFO", types={"individuals": "list:Any"}, requires=["len(individuals) > 0"],
        ensures=[("C08:lifo-tail", "ref_eq(result, individuals[len(individuals) - 1])")], returns="val", props=["C08"])
    add(spec, "SIRO", types={"individuals": "list:Any"}, requires=["len(individuals) > 0"],
        ensures=[("C08:siro-member", "result in individuals")], returns="val", allocates=True, props=["C08"])
    add(spec, "flatten_list", types={"list_of_lists": "list:Any"},
        requires=["forall_in(list_of_lists, lambda l: is_list(l))"],
        returns="list:Any", allocates=True, modifies=[],
        ensures=[
            ("every-element-comes-from-an-inner-list",
             "forall_in(result, lambda x: exists_int(lambda p: 0 <= p and p < len(list_of_lists) and x in as_list(list_of_lists[p], 'Any'), "
             "trigger=lambda p: list_of_lists[p]))"),
            ("every-inner-element-is-in-the-result",
             "forall_int(lambda p: implies(0 <= p and p < len(list_of_lists), forall_in(as_list(list_of_lists[p], 'Any'), lambda x: x in result)), "
             "trigger=lambda p: list_of_lists[p])"),
            ("fresh-result", "not was_alive(result)"),
        ],
        loop_invariants={0: [
            "forall_in(flat, lambda x: exists_int(lambda p: 0 <= p and p < _i and x in as_list(_it[p], 'Any'), trigger=lambda p: _it[p]))",
            "forall_int(lambda p: implies(0 <= p and p < _i, forall_in(as_list(_it[p], 'Any'), lambda x: x in flat)), trigger=lambda p: _it[p])",
        ]})
