"""Native replays: turn a failed obligation into a failing call of the REAL code where possible.
Each replay searches a small, stated input space for an input that satisfies the function's
precondition and violates the clause natively (bounded concretisation of the counterexample)."""
import itertools
import os
import sys
import traceback

REPO = os.environ.get("PYVC_REPO", "/repo")


def _ciw():
    if REPO not in sys.path:
        sys.path.insert(0, REPO)
    import ciw
    return ciw


def replay(prop, v):
    f = REPLAYS.get(v["unit"].split("[")[0])
    if f is None:
        return dict(confirmed=False, kind="none", transcript="no native replay available for " + v["unit"])
    try:
        return f(prop, v)
    except Exception:
        return dict(confirmed=False, kind="error", transcript=traceback.format_exc())


def replay_random_choice(prop, v):
    """inputs: arrays of length 1..3, probabilities from {0, 0.25, 0.5, 0.75, 1} summing to 1, random() patched
    to each of {0.0, 0.25, 0.5, 0.75, 0.999}"""
    ciw = _ciw()
    import random
    import ciw.auxiliary as aux
    real = random.random
    vals = [0.0, 0.25, 0.5, 0.75, 1.0]
    tried = 0
    try:
        for n in (1, 2, 3):
            for probs in itertools.product(vals, repeat=n):
                if abs(sum(probs) - 1.0) > 1e-12:
                    continue
                for r in (0.0, 0.25, 0.5, 0.75, 0.999):
                    random.random = lambda r=r: r
                    arr = [object() for _ in range(n)]
                    tried += 1
                    try:
                        res = aux.random_choice(arr, list(probs))
                    except Exception as e:
                        return dict(confirmed=True, kind="function-level input",
                                    transcript=f"random_choice(array of {n}, probs={list(probs)}) with random()={r} raised {e!r}",
                                    input=dict(probs=list(probs), random=r))
                    k = [i for i, a in enumerate(arr) if a is res]
                    if not k or not any(probs[i] > 0 for i in k):
                        return dict(confirmed=True, kind="function-level input",
                                    transcript=f"random_choice(array of {n}, probs={list(probs)}) with random()={r} returned "
                                               f"element {k} whose probability is {[probs[i] for i in k]}",
                                    input=dict(probs=list(probs), random=r))
    finally:
        random.random = real
    return dict(confirmed=False, kind="bounded search", transcript=f"{tried} inputs tried, none fails natively")


REPLAYS = {"random_choice": replay_random_choice}


def _run_events(Q, n):
    """drive the real event loop for n events, returning the clock values seen"""
    times = []
    nxt = Q.find_next_active_node()
    Q.current_time = nxt.next_event_date
    for _ in range(n):
        nxt = Q.event_and_return_nextnode(nxt)
        Q.current_time = nxt.next_event_date
        times.append(Q.current_time)
    return times


def replay_end_service_without_server(prop, v):
    """whole-run witness: a slotted node with an arrival at exactly t = 0.0"""
    ciw = _ciw()
    N = ciw.create_network(
        arrival_distributions=[ciw.dists.Sequential([0.0, 1000.0])],
        service_distributions=[ciw.dists.Deterministic(1.0)],
        number_of_servers=[ciw.Slotted(slots=[2.0, 4.0], slot_sizes=[1, 1])])
    Q = ciw.Simulation(N)
    times = _run_events(Q, 4)
    bad = [t for t in times if isinstance(t, bool)]
    recs = Q.get_all_records()
    odd = [r for r in recs if r.record_type == "service" and r.service_start_date is False]
    if bad or odd:
        return dict(confirmed=True, kind="whole-run",
                    transcript=f"Slotted(slots=[2,4], sizes=[1,1]) node, Sequential([0.0, 1000]) arrivals, Deterministic(1) service: "
                               f"clock values after the first events = {times}; a waiting customer (service_end_date False) was scheduled "
                               f"to 'finish service' at date False; service records with service_start_date False: {len(odd)}",
                    input=dict(network="1 slotted node", arrivals=[0.0, 1000.0]))
    return dict(confirmed=False, kind="whole-run", transcript=f"clock values {times}: nothing wrong natively")


REPLAYS["Node.update_next_end_service_without_server"] = replay_end_service_without_server


def replay_negative_sample(prop, v):
    """whole-run witness: a custom distribution whose sample() returns -5.0 used as service distribution"""
    ciw = _ciw()

    class Neg(ciw.dists.Distribution):
        def sample(self, t=None, ind=None):
            return -5.0
    N = ciw.create_network(arrival_distributions=[ciw.dists.Deterministic(1.0)], service_distributions=[Neg()],
                           number_of_servers=[1])
    Q = ciw.Simulation(N)
    try:
        Q.simulate_until_max_time(4.5)
    except ValueError as e:
        return dict(confirmed=False, kind="whole-run", transcript=f"the invalid sample is rejected: ValueError({e})")
    recs = Q.get_all_records()
    bad = [r for r in recs if r.service_time < 0 or r.service_end_date < r.service_start_date]
    if bad:
        return dict(confirmed=True, kind="whole-run",
                    transcript=f"service distribution returning -5.0 is accepted silently: {len(bad)} service records with negative "
                               f"service_time, e.g. start={bad[0].service_start_date} end={bad[0].service_end_date}")
    return dict(confirmed=False, kind="whole-run", transcript="no corrupted record observed")


for _u in ["Node.decide_class_change", "Node.begin_service_if_possible_accept", "Node.begin_service_if_possible_release",
           "Node.preempt", "Node.slotted_service", "Node.begin_service_if_possible_change_shift"]:
    REPLAYS.setdefault(_u, replay_negative_sample)


def replay_stale_prev_priority(prop, v):
    """whole-run witness: class change after service at node 1 (A -> B, other priority), reneging at node 2"""
    ciw = _ciw()
    N = ciw.create_network(
        arrival_distributions={'A': [ciw.dists.Deterministic(1.0), None], 'B': [None, None]},
        service_distributions={'A': [ciw.dists.Deterministic(0.1), ciw.dists.Deterministic(5.0)],
                               'B': [ciw.dists.Deterministic(0.1), ciw.dists.Deterministic(5.0)]},
        routing={'A': [[0.0, 1.0], [0.0, 0.0]], 'B': [[0.0, 1.0], [0.0, 0.0]]},
        number_of_servers=[1, 1], priority_classes={'A': 0, 'B': 1},
        class_change_matrices=[{'A': {'A': 0.0, 'B': 1.0}, 'B': {'A': 0.0, 'B': 1.0}},
                               {'A': {'A': 1.0, 'B': 0.0}, 'B': {'A': 0.0, 'B': 1.0}}],
        reneging_time_distributions={'A': [None, ciw.dists.Deterministic(2.0)], 'B': [None, ciw.dists.Deterministic(2.0)]})
    Q = ciw.Simulation(N)
    try:
        Q.simulate_until_max_time(20)
    except ValueError as e:
        return dict(confirmed=True, kind="whole-run",
                    transcript="2 nodes, classes A (priority 0) / B (priority 1), class change A->B after service at node 1, "
                               "reneging at node 2: the customer is filed in line 1 of node 2 but prev_priority_class is still 0, "
                               f"so renege() raises ValueError({e})")
    return dict(confirmed=False, kind="whole-run", transcript="run completed without error")


REPLAYS["Node.accept"] = replay_stale_prev_priority


def replay_renege_destination(prop, v):
    """whole-run witness: the documented jockeying example (renege at node 1, join node 2)"""
    ciw = _ciw()

    class Jockey(ciw.routing.Leave):
        def next_node_for_jockeying(self, ind):
            return self.simulation.nodes[2]
    N = ciw.create_network(
        arrival_distributions=[ciw.dists.Deterministic(0.2), None],
        service_distributions=[ciw.dists.Deterministic(1.0), ciw.dists.Deterministic(0.25)],
        number_of_servers=[1, 1],
        routing=ciw.routing.NetworkRouting(routers=[Jockey(), ciw.routing.Leave()]),
        reneging_time_distributions=[ciw.dists.Deterministic(1.5), None])
    Q = ciw.Simulation(N)
    Q.simulate_until_max_time(6)
    bad = []
    for ind in Q.get_all_individuals():
        recs = ind.data_records
        for a, b in zip(recs, recs[1:]):
            if a.record_type == "renege" and a.destination != b.node:
                bad.append((ind.id_number, a.destination, b.node))
    if bad:
        return dict(confirmed=True, kind="whole-run",
                    transcript=f"jockeying example of the documentation: {len(bad)} customers whose renege record names destination "
                               f"{bad[0][1]!r} while their next record is at node {bad[0][2]} (customer {bad[0][0]})")
    return dict(confirmed=False, kind="whole-run", transcript="every renege record names the node of the customer's next record")


REPLAYS["Node.renege"] = replay_renege_destination


def replay_blocked_overtime_server(prop, v):
    """whole-run witness: an overtime customer finishes service during a 0-server shift and is blocked"""
    ciw = _ciw()
    N = ciw.create_network(
        arrival_distributions=[ciw.dists.Sequential([4.0, 1000.0]), ciw.dists.Sequential([0.5, 1000.0])],
        service_distributions=[ciw.dists.Deterministic(3.0), ciw.dists.Deterministic(100.0)],
        routing=[[0.0, 1.0], [0.0, 0.0]],
        number_of_servers=[ciw.Schedule(numbers_of_servers=[1, 0], shift_end_dates=[5, 100], preemption=False), 1],
        queue_capacities=[float('inf'), 0])
    Q = ciw.Simulation(N)
    times = _run_events(Q, 40)
    dup = len(Q.nodes[2].blocked_queue)
    if dup > 1 and len(set(times[-10:])) == 1:
        return dict(confirmed=True, kind="whole-run",
                    transcript=f"node 1 = Schedule([1,0],[5,100]) non-pre-emptive, node 2 full: the customer served 4.0-7.0 on an overtime server "
                               f"is blocked at 7.0 but its server's next_end_service_date is not reset (guard self.c > 0 with c == 0): the same "
                               f"end-of-service event repeats at t={times[-1]} forever, node 2's blocked queue holds {dup} copies of the customer")
    return dict(confirmed=False, kind="whole-run", transcript=f"clock advanced normally: {times[-5:]}, blocked queue length {dup}")


REPLAYS["Node.finish_service"] = replay_blocked_overtime_server


def replay_zero_length_run(prop, v):
    """function-level input: simulate_until_max_time(0) on an M/M/1 network"""
    ciw = _ciw()
    N = ciw.create_network(arrival_distributions=[ciw.dists.Exponential(1)], service_distributions=[ciw.dists.Exponential(2)],
                           number_of_servers=[1])
    Q = ciw.Simulation(N)
    try:
        Q.simulate_until_max_time(0)
    except ZeroDivisionError as e:
        return dict(confirmed=True, kind="whole-run",
                    transcript=f"M/M/1, simulate_until_max_time(0): ZeroDivisionError({e}) in find_server_utilisation "
                               "(total server time is 0)")
    return dict(confirmed=False, kind="whole-run", transcript="returned normally")


REPLAYS["Node.find_server_utilisation"] = replay_zero_length_run


def replay_max_customers_zero(prop, v):
    ciw = _ciw()
    N = ciw.create_network(arrival_distributions=[ciw.dists.Exponential(1)], service_distributions=[ciw.dists.Exponential(2)],
                           number_of_servers=[1])
    Q = ciw.Simulation(N)
    try:
        Q.simulate_until_max_customers(0)
    except UnboundLocalError as e:
        return dict(confirmed=True, kind="whole-run", transcript=f"M/M/1, simulate_until_max_customers(0): UnboundLocalError({e})")
    return dict(confirmed=False, kind="whole-run", transcript="returned normally")


REPLAYS["Simulation.simulate_until_max_customers"] = replay_max_customers_zero


def _class_matrix_truth(Q, classes):
    return [[sum(1 for i in n.all_individuals if i.customer_class == c) for c in classes] for n in Q.transitive_nodes]


def replay_class_matrix_after_service_change(prop, v):
    """whole-run witness: NodeClassMatrix tracker, class change A -> B after service at node 1, run stepped event by
    event comparing the tracked matrix with the matrix computed from the customers actually present"""
    ciw = _ciw()
    N = ciw.create_network(
        arrival_distributions={'A': [ciw.dists.Deterministic(1.0), None], 'B': [None, None]},
        service_distributions={'A': [ciw.dists.Deterministic(0.4), ciw.dists.Deterministic(0.3)],
                               'B': [ciw.dists.Deterministic(0.4), ciw.dists.Deterministic(0.3)]},
        number_of_servers=[1, 1],
        routing={'A': [[0.0, 1.0], [0.0, 0.0]], 'B': [[0.0, 1.0], [0.0, 0.0]]},
        class_change_matrices=[{'A': {'A': 0.0, 'B': 1.0}, 'B': {'A': 0.0, 'B': 1.0}},
                               {'A': {'A': 1.0, 'B': 0.0}, 'B': {'A': 0.0, 'B': 1.0}}])
    ciw.seed(0)
    Q = ciw.Simulation(N, tracker=ciw.trackers.NodeClassMatrix())
    for k in range(12):
        node = Q.find_next_active_node()
        Q.current_time = node.next_event_date
        node.have_event()
        for nd in Q.transitive_nodes:
            nd.update_next_event_date()
        truth = _class_matrix_truth(Q, ['A', 'B'])
        if Q.statetracker.state != truth:
            return dict(confirmed=True, kind="whole-run",
                        transcript=f"2 nodes, class change A->B after service at node 1, NodeClassMatrix tracker: after event {k + 1} "
                                   f"(t={Q.current_time}) the tracker holds {Q.statetracker.state} but the customers present give {truth}",
                        input=dict(events=k + 1))
    return dict(confirmed=False, kind="whole-run", transcript="tracked matrix equalled the configuration after each of 12 events")


REPLAYS["NodeClassMatrix.change_state_release"] = replay_class_matrix_after_service_change


def replay_accept_dispatch(prop, v):
    """Node.accept has two known witnesses: the C17 clause (class the tracker counts under) and the line bookkeeping"""
    if "C17" in v.get("label", "") or prop == "C17":
        r = replay_class_matrix_while_waiting_change(prop, v)
        if r.get("confirmed"):
            return r
    return replay_stale_prev_priority(prop, v)


def replay_class_matrix_while_waiting_change(prop, v):
    """whole-run witness: class change A -> B after service at node 1, then B -> C while waiting at node 2"""
    ciw = _ciw()
    names = ['A', 'B', 'C']
    ident = {a: {b: (1.0 if a == b else 0.0) for b in names} for a in names}
    first = {a: {b: (1.0 if b == 'B' else 0.0) for b in names} for a in names}
    N = ciw.create_network(
        arrival_distributions={'A': [ciw.dists.Deterministic(1.0), None], 'B': [None, None], 'C': [None, None]},
        service_distributions={c: [ciw.dists.Deterministic(0.1), ciw.dists.Deterministic(10.0)] for c in names},
        number_of_servers=[1, 1],
        routing={c: [[0.0, 1.0], [0.0, 0.0]] for c in names},
        class_change_matrices=[first, ident],
        class_change_time_distributions={'A': {}, 'B': {'C': ciw.dists.Deterministic(1.5)}, 'C': {}})
    ciw.seed(0)
    Q = ciw.Simulation(N, tracker=ciw.trackers.NodeClassMatrix())
    try:
        for k in range(14):
            node = Q.find_next_active_node()
            Q.current_time = node.next_event_date
            node.have_event()
            for nd in Q.transitive_nodes:
                nd.update_next_event_date()
            truth = _class_matrix_truth(Q, names)
            if Q.statetracker.state != truth:
                return dict(confirmed=True, kind="whole-run",
                            transcript=f"class change A->B after service at node 1, then B->C while waiting at node 2: after event {k + 1} "
                                       f"(t={Q.current_time}) the NodeClassMatrix tracker holds {Q.statetracker.state}, the customers present give {truth}",
                            input=dict(events=k + 1))
    except Exception as e:
        return dict(confirmed=False, kind="error", transcript=repr(e))
    return dict(confirmed=False, kind="whole-run", transcript="tracked matrix equalled the configuration after each event")


REPLAYS["Node.accept"] = replay_accept_dispatch


def replay_preempt_overtime_server(prop, v):
    """whole-run witness (E4): non-pre-emptive schedule [1 server until t=5, 1 server until t=100], priorities with 'resume':
    a low-priority customer works its server into overtime, a high-priority customer takes the new server, a second
    high-priority customer pre-empts the low-priority one on the off-duty server"""
    ciw = _ciw()
    N = ciw.create_network(
        arrival_distributions={'Lo': [ciw.dists.Sequential([1.0, float('inf')])], 'Hi': [ciw.dists.Sequential([6.0, 1.0, float('inf')])]},
        service_distributions={'Lo': [ciw.dists.Deterministic(10.0)], 'Hi': [ciw.dists.Deterministic(3.0)]},
        number_of_servers=[ciw.Schedule(numbers_of_servers=[1, 1], shift_end_dates=[5, 100])],
        priority_classes=({'Hi': 0, 'Lo': 1}, ['resume']))
    Q = ciw.Simulation(N)
    Q.simulate_until_max_time(50)
    nd = Q.transitive_nodes[0]
    stuck = [i for i in nd.all_individuals if i.server and i.server not in nd.servers]
    if stuck:
        i = stuck[0]
        return dict(confirmed=True, kind="whole-run",
                    transcript=f"customer {i.id_number} ({i.customer_class}) pre-empted a customer whose server was off duty: it 'started service' at "
                               f"t={i.service_start_date} (due to end at {i.service_end_date}) on server {i.server.id_number}, which was deleted at that "
                               f"instant and is not one of the node's servers; at t=50 the customer is still there and never finishes")
    return dict(confirmed=False, kind="whole-run", transcript="no customer left on a deleted server")


REPLAYS["Node.decide_preempt"] = replay_preempt_overtime_server


def replay_dynamic_classes_attribute(prop, v):
    """whole-run witness (D1): two nodes, class changes while waiting configured; the first sweep of update_next_event_date reaches a
    node that has had no customer yet"""
    ciw = _ciw()
    N = ciw.create_network(
        arrival_distributions={'A': [ciw.dists.Deterministic(1.0), None], 'B': [None, None]},
        service_distributions={'A': [ciw.dists.Deterministic(0.5), ciw.dists.Deterministic(0.5)], 'B': [ciw.dists.Deterministic(0.5), ciw.dists.Deterministic(0.5)]},
        number_of_servers=[1, 1],
        routing={'A': [[0.0, 1.0], [0.0, 0.0]], 'B': [[0.0, 1.0], [0.0, 0.0]]},
        class_change_time_distributions={'A': {'B': ciw.dists.Deterministic(5.0)}, 'B': {}})
    Q = ciw.Simulation(N)
    try:
        Q.simulate_until_max_time(3)
    except AttributeError as e:
        return dict(confirmed=True, kind="whole-run",
                    transcript=f"2 nodes in tandem, class_change_time_distributions given: simulate_until_max_time(3) raises AttributeError({e})")
    return dict(confirmed=False, kind="whole-run", transcript="run completed")


REPLAYS["Node.__init__"] = replay_dynamic_classes_attribute


def replay_overtime_stamp(prop, v):
    """whole-run witness (E7): node 1 has a non-pre-emptive schedule (1 server until t=5, then 1 server until t=100); its customer finishes at
    t=4 but is blocked towards node 2 until t=20, so the server works overtime and leaves at t=20 -- in the middle of an event of node 2"""
    ciw = _ciw()
    N = ciw.create_network(
        arrival_distributions=[ciw.dists.Sequential([1.0, float('inf')]), ciw.dists.Sequential([0.5, float('inf')])],
        service_distributions=[ciw.dists.Deterministic(3.0), ciw.dists.Deterministic(19.5)],
        number_of_servers=[ciw.Schedule(numbers_of_servers=[1, 1], shift_end_dates=[5, 100]), 1],
        queue_capacities=[float('inf'), 0],
        routing=[[0.0, 1.0], [0.0, 0.0]])
    Q = ciw.Simulation(N)
    Q.simulate_until_max_time(60)
    n1 = Q.transitive_nodes[0]
    if n1.overtime and abs(n1.overtime[0] - 15.0) > 1e-9:
        return dict(confirmed=True, kind="whole-run",
                    transcript=f"the overtime server of node 1 left at t=20 (shift ended at t=5): overtime recorded {n1.overtime[0]} instead of 15.0, "
                               f"total server time {n1.all_servers_total[0]} instead of 20.0 (kill_server stamped the node's NEXT event date, t=100)")
    return dict(confirmed=False, kind="whole-run", transcript=f"overtime {n1.overtime}, totals {n1.all_servers_total}")


REPLAYS["Node.kill_server"] = replay_overtime_stamp


def replay_class_change_during_zero_server_shift(prop, v):
    """whole-run witness (E9): schedule with a 0-server first shift, pre-emptive priorities, a waiting low-priority customer whose class
    (and priority) changes while nobody is on duty"""
    ciw = _ciw()
    N = ciw.create_network(
        arrival_distributions={'Lo': [ciw.dists.Sequential([1.0, float('inf')])], 'Hi': [None]},
        service_distributions={'Lo': [ciw.dists.Deterministic(2.0)], 'Hi': [ciw.dists.Deterministic(2.0)]},
        number_of_servers=[ciw.Schedule(numbers_of_servers=[0, 1], shift_end_dates=[10, 100])],
        priority_classes=({'Hi': 0, 'Lo': 1}, ['resume']),
        class_change_time_distributions={'Lo': {'Hi': ciw.dists.Deterministic(3.0)}, 'Hi': {}})
    Q = ciw.Simulation(N)
    try:
        Q.simulate_until_max_time(30)
    except ValueError as e:
        return dict(confirmed=True, kind="whole-run",
                    transcript=f"0 servers until t=10, priorities with 'resume', class change Lo->Hi after waiting 3: at t=4 decide_preempt looks for a victim "
                               f"among no servers and simulate_until_max_time(30) raises ValueError({e})")
    return dict(confirmed=False, kind="whole-run", transcript="run completed")


REPLAYS["Node.change_customer_class_while_waiting"] = replay_class_change_during_zero_server_shift


def replay_interrupted_blocked_customer(prop, v):
    """whole-run witness (D4): node 1 has a pre-emptive ('resume') schedule with a shift end at t=5; its customer finished at t=4 and is
    blocked towards node 2 (busy until t=20) when the shift ends"""
    ciw = _ciw()
    N = ciw.create_network(
        arrival_distributions=[ciw.dists.Sequential([1.0, float('inf')]), ciw.dists.Sequential([0.5, float('inf')])],
        service_distributions=[ciw.dists.Deterministic(3.0), ciw.dists.Deterministic(19.5)],
        number_of_servers=[ciw.Schedule(numbers_of_servers=[1, 1], shift_end_dates=[5, 100], preemption='resume'), 1],
        queue_capacities=[float('inf'), 0],
        routing=[[0.0, 1.0], [0.0, 0.0]])
    Q = ciw.Simulation(N)
    clock = []
    for k in range(10):
        node = Q.find_next_active_node()
        Q.current_time = node.next_event_date
        clock.append(Q.current_time)
        node.have_event()
        for nd in Q.transitive_nodes:
            nd.update_next_event_date()
    back = [(a, b) for a, b in zip(clock, clock[1:]) if b < a]
    neg = [r for r in Q.get_all_records() if r.record_type == 'service' and r.service_time < 0]
    if back or neg:
        return dict(confirmed=True, kind="whole-run",
                    transcript=f"a customer blocked since t=4 is interrupted at the pre-emptive shift end t=5 with time_left = 4 - 5 = -1; its resumed service "
                               f"'ends' in the past: clock sequence {clock} goes backwards at {back}; service records with negative service time: "
                               f"{[(r.id_number, r.service_start_date, r.service_time, r.service_end_date) for r in neg]}")
    return dict(confirmed=False, kind="whole-run", transcript=f"clock {clock} is monotone and no service time is negative")


REPLAYS["Node.interrupt_service"] = replay_interrupted_blocked_customer


def replay_preempted_customer_reneges_in_the_past(prop, v):
    """whole-run witness (E5): one server, priorities with 'resume', reneging: a low-priority customer (patience 3, arrived at t=1) is
    served from t=1, pre-empted at t=6 by a high-priority arrival"""
    ciw = _ciw()
    N = ciw.create_network(
        arrival_distributions={'Lo': [ciw.dists.Sequential([1.0, float('inf')])], 'Hi': [ciw.dists.Sequential([6.0, float('inf')])]},
        service_distributions={'Lo': [ciw.dists.Deterministic(10.0)], 'Hi': [ciw.dists.Deterministic(2.0)]},
        number_of_servers=[1],
        priority_classes=({'Hi': 0, 'Lo': 1}, ['resume']),
        reneging_time_distributions={'Lo': [ciw.dists.Deterministic(3.0)], 'Hi': [None]})
    Q = ciw.Simulation(N)
    clock = []
    for k in range(8):
        node = Q.find_next_active_node()
        if node.next_event_date == float('inf'):
            break
        Q.current_time = node.next_event_date
        clock.append(Q.current_time)
        node.have_event()
        for nd in Q.transitive_nodes:
            nd.update_next_event_date()
    back = [(a, b) for a, b in zip(clock, clock[1:]) if b < a]
    if back:
        return dict(confirmed=True, kind="whole-run",
                    transcript=f"the pre-empted customer goes back to waiting at t=6 with its patience end still at t=4: the next event is its renege "
                               f"'at t=4'; clock sequence {clock} goes backwards at {back} and the customer gets a renege record with exit_date 4.0 "
                               f"after an interrupted-service record with exit_date 6.0")
    return dict(confirmed=False, kind="whole-run", transcript=f"clock {clock} is monotone")


def replay_preempt_dispatch(prop, v):
    if "C13" in v.get("label", "") or "patience" in v.get("label", ""):
        return replay_preempted_customer_reneges_in_the_past(prop, v)
    return dict(confirmed=False, kind="none", transcript="no native replay available for " + v.get("unit", "Node.preempt"))


REPLAYS["Node.preempt"] = replay_preempt_dispatch
