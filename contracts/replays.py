"""Native replays: turn a failed obligation into a failing call of the REAL code where possible.
Each replay searches a small, stated input space for an input that satisfies the function's
precondition and violates the clause natively (bounded concretisation of the counterexample)."""
import itertools
import os
import sys
import traceback

REPO = os.environ.get("PYVC_REPO", "/repo")


def _ciw():
    if REPO not in sys.path:
        sys.path.insert(0, REPO)
    import ciw
    return ciw


def replay(prop, v):
    f = REPLAYS.get(v["unit"].split("[")[0])
    if f is None:
        return dict(confirmed=False, kind="none", transcript="no native replay available for " + v["unit"])
    try:
        return f(prop, v)
    except Exception:
        return dict(confirmed=False, kind="error", transcript=traceback.format_exc())


def replay_random_choice(prop, v):
    """inputs: arrays of length 1..3, probabilities from {0, 0.25, 0.5, 0.75, 1} summing to 1, random() patched
    to each of {0.0, 0.25, 0.5, 0.75, 0.999}"""
    ciw = _ciw()
    import random
    import ciw.auxiliary as aux
    real = random.random
    vals = [0.0, 0.25, 0.5, 0.75, 1.0]
    tried = 0
    try:
        for n in (1, 2, 3):
            for probs in itertools.product(vals, repeat=n):
                if abs(sum(probs) - 1.0) > 1e-12:
                    continue
                for r in (0.0, 0.25, 0.5, 0.75, 0.999):
                    random.random = lambda r=r: r
                    arr = [object() for _ in range(n)]
                    tried += 1
                    try:
                        res = aux.random_choice(arr, list(probs))
                    except Exception as e:
                        return dict(confirmed=True, kind="function-level input",
                                    transcript=f"random_choice(array of {n}, probs={list(probs)}) with random()={r} raised {e!r}",
                                    input=dict(probs=list(probs), random=r))
                    k = [i for i, a in enumerate(arr) if a is res]
                    if not k or not any(probs[i] > 0 for i in k):
                        return dict(confirmed=True, kind="function-level input",
                                    transcript=f"random_choice(array of {n}, probs={list(probs)}) with random()={r} returned "
                                               f"element {k} whose probability is {[probs[i] for i in k]}",
                                    input=dict(probs=list(probs), random=r))
    finally:
        random.random = real
    return dict(confirmed=False, kind="bounded search", transcript=f"{tried} inputs tried, none fails natively")


REPLAYS = {"random_choice": replay_random_choice}
