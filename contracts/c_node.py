"""Contracts for ciw/node.py (class Node and, through receiver classes, ExactNode / PSNode)."""
from . import add

IND = "obj:Individual"
SRV = "obj:Server"


def declare(spec):
    M = spec.macros
    # a node with a finite number of servers has its `servers` list (created in __init__ only then)
    M["has_servers"] = "lambda n: isinf(n.c) or has(n, 'servers')"

    for leaf in ["now", "increment_time", "all_individuals", "reset_individual_attributes",
                 "give_individual_a_service_time", "give_service_time_after_preemption",
                 "decide_between_simultaneous_individuals", "find_number_of_slotted_services"]:
        add(spec, "Node." + leaf, inline=True)

    add(spec, "Node.find_free_server",
        types={"ind": IND},
        requires=["has_servers(self)"],
        returns="opt:" + SRV, allocates=True, modifies=[],
        ensures=[
            ("inf-servers-none", "implies(isinf(self.c), result is None)"),
            ("C04:none-iff-all-busy",
             "implies(not isinf(self.c), (result is None) == forall_in(self.servers, lambda s: s.busy))"),
            ("C04:free-member", "implies(result is not None, result in self.servers and not result.busy)"),
            ("C05:first-free-in-list-order",
             "implies(result is not None and self.server_priority_function is None, "
             "forall_idx(self.servers, lambda k, s: implies(k < index_of(self.servers, result), s.busy)))"),
        ],
        loop_invariants={0: ["forall_int(lambda j: implies(0 <= j and j < _i, _it[j].busy), trigger=lambda j: _it[j])"]},
        props=["C04", "C05"])

    add(spec, "Node.choose_next_customer",
        requires=["len(self.individuals) == self.simulation.number_of_priority_classes"],
        returns="opt:" + IND, allocates=True, modifies=[],
        ensures=[
            ("C05:none-iff-nobody-waits",
             "(result is None) == forall_in(self.individuals, lambda q: forall_in(q, lambda i: i.server))"),
            ("C08:highest-priority-class-with-a-waiting-customer",
             "implies(result is not None, exists_int(lambda p: 0 <= p and p < len(self.individuals) "
             "and result in self.individuals[p] and not result.server "
             "and forall_int(lambda p2: implies(0 <= p2 and p2 < p, forall_in(self.individuals[p2], lambda i: i.server)),"
             "               trigger=lambda p2: self.individuals[p2]), trigger=lambda p: self.individuals[p]))"),
        ],
        loop_invariants={0: [
            "forall_int(lambda j: implies(0 <= j and j < _i, forall_in(_it[j], lambda i: i.server)), trigger=lambda j: _it[j])"]},
        props=["C05", "C08"])

    # ------------------------------------------------------------------------------------------------
    # next-event bookkeeping
    ORDER = ["slotted_service", "shift_change", "end_service", "class_change", "renege"]
    M["pne"] = "lambda n, k: n.possible_next_events.get(k, (None, float('inf')))"
    M["pdate"] = "lambda n, k: n.possible_next_events.get(k, (None, float('inf')))[1]"
    ens = []
    for k in ORDER:
        ens.append((f"C02:minimal-{k}", f"result[0][1] <= pdate(self, '{k}')"))
        ens.append((f"C02:chosen-{k}", f"implies(result[1] == '{k}', ref_eq(result[0], pne(self, '{k}')))"))
    for a in range(len(ORDER)):
        for b in range(a + 1, len(ORDER)):
            ens.append((f"C12+C13:tie-{ORDER[a]}-before-{ORDER[b]}",
                        f"implies(result[1] == '{ORDER[b]}', pdate(self, '{ORDER[a]}') > pdate(self, '{ORDER[b]}'))"))
    ens.append(("none-iff-nothing-scheduled",
                "(result[1] is None) == (" + " and ".join(f"isinf(pdate(self, '{k}'))" for k in ORDER) + ")"))
    ens.append(("type-is-one-of-five", "result[1] is None or " + " or ".join(f"result[1] == '{k}'" for k in ORDER)))
    add(spec, "Node.decide_next_event",
        requires=["has(self, 'possible_next_events')"],
        returns="tup2:(tup2:val,num),(opt:str)", modifies=[], allocates=True,
        ensures=ens, props=["C02", "C12", "C13"])
