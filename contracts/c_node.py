"""Contracts for ciw/node.py (class Node and, through receiver classes, ExactNode / PSNode)."""
from . import add

IND = "obj:Individual"
SRV = "obj:Server"


def declare(spec):
    M = spec.macros
    # a node with a finite number of servers has its `servers` list (created in __init__ only then)
    M["has_servers"] = "lambda n: isinf(n.c) or has(n, 'servers')"

    for leaf in ["now", "increment_time", "all_individuals", "reset_individual_attributes",
                 "give_individual_a_service_time", "give_service_time_after_preemption",
                 "decide_between_simultaneous_individuals", "find_number_of_slotted_services"]:
        add(spec, "Node." + leaf, inline=True)

    add(spec, "Node.find_free_server",
        types={"ind": IND},
        requires=["has_servers(self)"],
        returns="opt:" + SRV, allocates=True, modifies=[],
        ensures=[
            ("inf-servers-none", "implies(isinf(self.c), result is None)"),
            ("C04:none-iff-all-busy",
             "implies(not isinf(self.c), (result is None) == forall_in(self.servers, lambda s: s.busy))"),
            ("C04:free-member", "implies(result is not None, result in self.servers and not result.busy)"),
            ("C05:first-free-in-list-order",
             "implies(result is not None and self.server_priority_function is None, "
             "forall_idx(self.servers, lambda k, s: implies(k < index_of(self.servers, result), s.busy)))"),
        ],
        loop_invariants={0: ["forall_int(lambda j: implies(0 <= j and j < _i, _it[j].busy), trigger=lambda j: _it[j])"]},
        props=["C04", "C05"])

    add(spec, "Node.choose_next_customer",
        requires=["len(self.individuals) == self.simulation.number_of_priority_classes"],
        returns="opt:" + IND, allocates=True, modifies=[],
        ensures=[
            ("C05:none-iff-nobody-waits",
             "(result is None) == forall_in(self.individuals, lambda q: forall_in(q, lambda i: i.server))"),
            ("C08:highest-priority-class-with-a-waiting-customer",
             "implies(result is not None, exists_int(lambda p: 0 <= p and p < len(self.individuals) "
             "and result in self.individuals[p] and not result.server "
             "and forall_int(lambda p2: implies(0 <= p2 and p2 < p, forall_in(self.individuals[p2], lambda i: i.server)),"
             "               trigger=lambda p2: self.individuals[p2]), trigger=lambda p: self.individuals[p]))"),
        ],
        loop_invariants={0: [
            "forall_int(lambda j: implies(0 <= j and j < _i, forall_in(_it[j], lambda i: i.server)), trigger=lambda j: _it[j])"]},
        props=["C05", "C08"])
