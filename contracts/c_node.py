"""Contracts for ciw/node.py (class Node and, through receiver classes, ExactNode / PSNode)."""
from . import add

IND = "obj:Individual"
SRV = "obj:Server"


def INV(text):
    """a structural invariant of the simulation used as a precondition: assumed at function entry and at
    internal call sites (see pyvc.calls.apply_contract); every function is still obliged to re-establish
    the invariants named in its own `ensures`"""
    import re as _re
    return ("inv:" + _re.sub(r"[^A-Za-z0-9_]+", "-", text)[:60], text)


def declare(spec):
    M = spec.macros
    # a node with a finite number of servers has its `servers` list (created in __init__ only then)
    M["has_servers"] = "lambda n: isinf(n.c) or has(n, 'servers')"

    # all customers at the node: the single priority line itself, or a fresh list with the lines' members
    add(spec, "Node.all_individuals",
        requires=[INV("len(self.individuals) == self.simulation.number_of_priority_classes"), "self.simulation.number_of_priority_classes >= 1"],
        returns="list:Any", allocates=True, modifies=[], pure=True,
        ensures=[
            ("members-are-customers", "forall_in(result, lambda x: is_obj(x, 'Individual'))"),
            ("every-customer-of-a-line-is-a-member",
             "forall_int(lambda p: implies(0 <= p and p < len(self.individuals), forall_in(self.individuals[p], lambda x: x in result)), "
             "trigger=lambda p: self.individuals[p])"),
            ("single-line-is-returned-itself", "implies(self.simulation.number_of_priority_classes == 1, ref_eq(result, self.individuals[0]))"),
        ])

    for leaf in ["now", "increment_time", "reset_individual_attributes",
                 "give_individual_a_service_time", "give_service_time_after_preemption",
                 "decide_between_simultaneous_individuals", "find_number_of_slotted_services"]:
        add(spec, "Node." + leaf, inline=True)

    add(spec, "Node.find_free_server",
        types={"ind": IND},
        requires=[INV("has_servers(self)")],
        returns="opt:" + SRV, allocates=True, modifies=[],
        ensures=[
            ("inf-servers-none", "implies(isinf(self.c), result is None)"),
            ("C04:none-iff-all-busy",
             "implies(not isinf(self.c), (result is None) == forall_in(self.servers, lambda s: s.busy))"),
            ("C04:free-member", "implies(result is not None, result in self.servers and not result.busy and was_alive(result))"),
            ("C05:first-free-in-list-order",
             "implies(result is not None and self.server_priority_function is None, "
             "forall_idx(self.servers, lambda k, s: implies(k < index_of(self.servers, result), s.busy)))"),
        ],
        loop_invariants={0: ["forall_int(lambda j: implies(0 <= j and j < _i, _it[j].busy), trigger=lambda j: _it[j])"]},
        props=["C04", "C05"])

    add(spec, "Node.choose_next_customer",
        requires=[INV("len(self.individuals) == self.simulation.number_of_priority_classes"), INV("pop_fwd(self)")],
        returns="opt:" + IND, allocates=True, modifies=[],
        ensures=[
            ("C05:none-iff-nobody-waits",
             "(result is None) == forall_in(self.individuals, lambda q: forall_in(q, lambda i: i.server))"),
            ("chosen-customer-is-at-this-node-and-waiting",
             "implies(result is not None, ref_eq(loc(result), self) and not result.server and was_alive(result))"),
            ("C08:highest-priority-class-with-a-waiting-customer",
             "implies(result is not None, exists_int(lambda p: 0 <= p and p < len(self.individuals) "
             "and result in self.individuals[p] and not result.server "
             "and forall_int(lambda p2: implies(0 <= p2 and p2 < p, forall_in(self.individuals[p2], lambda i: i.server)),"
             "               trigger=lambda p2: self.individuals[p2]), trigger=lambda p: self.individuals[p]))"),
        ],
        loop_invariants={0: [
            "forall_int(lambda j: implies(0 <= j and j < _i, forall_in(_it[j], lambda i: i.server)), trigger=lambda j: _it[j])"]},
        props=["C05", "C08"])

    # ------------------------------------------------------------------------------------------------
    # next-event bookkeeping
    ORDER = ["slotted_service", "shift_change", "end_service", "class_change", "renege"]
    M["pne"] = "lambda n, k: n.possible_next_events.get(k, (None, float('inf')))"
    M["pdate"] = "lambda n, k: n.possible_next_events.get(k, (None, float('inf')))[1]"
    ens = []
    for k in ORDER:
        ens.append((f"C02:minimal-{k}", f"result[0][1] <= pdate(self, '{k}')"))
        ens.append((f"C02:chosen-{k}", f"implies(result[1] == '{k}', ref_eq(result[0], pne(self, '{k}')))"))
    for a in range(len(ORDER)):
        for b in range(a + 1, len(ORDER)):
            ens.append((f"C12+C13:tie-{ORDER[a]}-before-{ORDER[b]}",
                        f"implies(result[1] == '{ORDER[b]}', pdate(self, '{ORDER[a]}') > pdate(self, '{ORDER[b]}'))"))
    ens.append(("none-iff-nothing-scheduled",
                "(result[1] is None) == (" + " and ".join(f"isinf(pdate(self, '{k}'))" for k in ORDER) + ")"))
    ens.append(("type-is-one-of-five", "result[1] is None or " + " or ".join(f"result[1] == '{k}'" for k in ORDER)))
    add(spec, "Node.decide_next_event",
        requires=["has(self, 'possible_next_events')"],
        returns="tup2:(tup2:val,time),(opt:str)", modifies=[], allocates=True,
        ensures=ens, props=["C02", "C12", "C13"])

    # ------------------------------------------------------------------------------------------------
    # shared predicates (network-configuration invariants are ASSUMED: established by validify_dictionary /
    # create_network / Simulation.__init__, never changed afterwards)
    M["shape"] = ("lambda n: len(n.individuals) == n.simulation.number_of_priority_classes "
                  "and n.simulation.number_of_priority_classes >= 1")
    M["net_ok"] = (
        "lambda n: 1 <= n.id_number and n.id_number <= nnodes() and n.simulation.network.number_of_nodes == nnodes() "
        "and len(n.simulation.nodes) == nnodes() + 2 and len(n.simulation.network.customer_class_names) > 0 "
        "and forall_member(n.simulation.network.customer_class_names, lambda c: "
        "  0 <= n.simulation.network.priority_class_mapping[c] "
        "  and n.simulation.network.priority_class_mapping[c] < n.simulation.number_of_priority_classes)")
    # ordinary (float) arithmetic: the clock is an int / float; ExactNode runs are verified separately (C20)
    M["float_clock"] = "lambda n: is_fin(n.simulation.current_time) or is_pinf(n.simulation.current_time)"
    M["cls_ok"] = "lambda n, i: i.customer_class in n.simulation.network.customer_class_names"
    M["prio_ok"] = "lambda n, i: 0 <= i.priority_class and i.priority_class < len(n.individuals)"
    M["prev_prio_ok"] = "lambda n, i: 0 <= i.prev_priority_class and i.prev_priority_class < len(n.individuals)"
    # a customer in service at a node with real servers holds one of the node's servers
    M["holds_server"] = ("lambda n, i: implies(not isinf(n.c) and not n.slotted, "
                         "is_obj(i.server, 'Server') and as_obj(i.server, 'Server') in n.servers "
                         "and is_fin(as_obj(i.server, 'Server').busy_time) and is_fin(as_obj(i.server, 'Server').start_date) "
                         "and (as_obj(i.server, 'Server').shift_end is False or is_fin(as_obj(i.server, 'Server').shift_end)))")
    # float-world dates (ordinary nodes): False or an int / float
    M["float_dates"] = ("lambda i: (i.arrival_date is False or is_fin(i.arrival_date)) and (i.service_start_date is False or is_fin(i.service_start_date)) "
                        "and (i.service_end_date is False or is_fin(i.service_end_date))")

    for leaf in ["attach_server", "detatch_server", "kill_server", "write_individual_record",
                 "write_interruption_record", "write_reneging_record", "write_baulking_or_rejection_record",
                 "get_service_time", "get_reneging_date", "next_node", "next_node_for_rerouting",
                 "next_node_for_jockeying", "change_priority_queue", "reset_class_change",
                 "update_next_class_change_while_waiting", "update_next_shift_change_or_slot_time",
                 "have_event", "sort_interrupted_individuals"]:
        add(spec, "Node." + leaf, inline=True)

    add(spec, "Node.block_individual",
        types={"individual": IND, "next_node": "obj:Node"},
        requires=[("C07:blocked-only-when-destination-is-full", "next_node.number_of_individuals >= next_node.node_capacity"),
                  ("C17:tracker-protocol-both-ends-are-service-nodes-of-this-network",
                   "1 <= self.id_number and self.id_number <= nnodes() and 1 <= next_node.id_number and next_node.id_number <= nnodes()")],
        modifies=["is_blocked@individual", "$seq@next_node.blocked_queue", "len_blocked_queue@next_node",
                  "unchecked_blockage@self.simulation"] + ["state", "increment", "$seq[TrackerState]", "$seq[TrackerRow]",
                  "$seq[TrackerCell]", "$seq[TrackerOrder]", "$seq[History]", "$seq[HistEntry]"],
        allocates=True,
        ensures=[
            ("C07:flagged-blocked", "individual.is_blocked"),
            ("C07:queued-at-the-tail-of-the-destination",
             "S(next_node.blocked_queue) == append1(old(S(next_node.blocked_queue)), (self.id_number, individual.id_number))"),
            ("C07:blocked-queue-length", "next_node.len_blocked_queue == old(next_node.len_blocked_queue) + 1"),
            ("C18:blockage-reported-to-the-deadlock-check", "self.simulation.unchecked_blockage"),
        ],
        expect_calls={"change_state_block": 1, "action_at_blockage": 1},
        props=["C07", "C17", "C18"])

    TRK = ["state", "increment", "$seq[TrackerState]", "$seq[TrackerRow]", "$seq[TrackerCell]", "$seq[TrackerOrder]",
           "$seq[History]", "$seq[HistEntry]"]
    IND_FIELDS = ["arrival_date", "service_start_date", "service_time", "service_end_date", "exit_date", "server",
                  "reneging_date", "class_change_date", "next_class", "time_left", "original_service_time",
                  "original_service_start_date", "interrupted", "is_blocked", "destination", "node", "original_class",
                  "queue_size_at_arrival", "queue_size_at_departure", "with_server", "date_last_update"]
    SRV_FIELDS = ["cust", "busy", "next_end_service_date", "busy_time", "total_time", "offduty", "shift_end"]
    # fields of a customer written when a service is started / when an interrupted one is restarted
    START_FIELDS = ["arrival_date", "service_start_date", "service_time", "service_end_date", "server", "reneging_date",
                    "class_change_date", "next_class"]
    RESTART_FIELDS = START_FIELDS + ["interrupted", "is_blocked", "destination"]
    ATTACH_FIELDS = ["cust", "busy", "next_end_service_date"]

    # ---- class change after service (C09) --------------------------------------------------------------
    add(spec, "Node.change_customer_class",
        types={"individual": IND},
        requires=[INV("net_ok(self)"), "cls_ok(self, individual)", INV("class_change_ok(self)")],
        call_assumes={"random_choice": ["sum_r(probs) == 1"]},
        modifies=["previous_class@individual", "customer_class@individual", "prev_priority_class@individual",
                  "priority_class@individual"], allocates=True,
        ensures=[
            ("still-a-class-of-the-network", "cls_ok(self, individual)"),
            ("C09:priority-follows-class",
             "implies(self.class_change, individual.priority_class == self.simulation.network.priority_class_mapping[individual.customer_class])"),
            ("C09:zero-probability-class-change-never-happens",
             "implies(self.class_change, self.class_change[old(individual.customer_class)][individual.customer_class] > 0)"),
            ("C17:previous-class-remembered", "implies(self.class_change, individual.previous_class == old(individual.customer_class) "
                                               "and individual.prev_priority_class == old(individual.priority_class))"),
            ("no-matrix-no-change", "implies(not self.class_change, individual.customer_class == old(individual.customer_class) "
                                    "and individual.priority_class == old(individual.priority_class) "
                                    "and individual.prev_priority_class == old(individual.prev_priority_class) "
                                    "and individual.previous_class == old(individual.previous_class))"),
        ],
        props=["C09", "C17"])

    # ---- predicates about one customer -------------------------------------------------------------------
    # a customer that may be (re)started: never served on this visit, or pre-empted with its bookkeeping in place
    M["restartable"] = ("lambda i: i.service_time is False or "
                        "((i.service_time == 'resample' or i.service_time == 'restart' or i.service_time == 'resume') and has(i, 'time_left') "
                        " and has(i, 'original_service_time') and is_fin(i.time_left) and i.time_left >= 0 and is_time(i.original_service_time) and is_fin(i.original_service_time) and i.original_service_time >= 0)")
    M["waiting_ok"] = ("lambda n, i: cls_ok(n, i) and restartable(i) and implies(n.dynamic_classes, has(i, 'class_change_date'))")
    # abstract view of a node's population through the ghost location map (I-POP, forward direction):
    # whoever is filed in one of the node's lines is located at the node
    M["pop_fwd"] = "lambda n: forall_in(n.individuals, lambda q: forall_in(q, lambda x: ref_eq(loc(x), n)))"
    M["all_waiting_ok"] = ("lambda n: forall_obj('Individual', lambda i: implies(ref_eq(loc(i), n) and not i.server, waiting_ok(n, i)), "
                           "trigger=lambda i: loc(i))")
    # position-based form used where a customer is picked out of the lines: whoever is filed in a line is located
    # here and, if waiting, may be (re)started
    M["line_ok"] = ("lambda n: forall_in(n.individuals, lambda q: forall_in(q, lambda x: ref_eq(loc(x), n) and cls_ok(n, x) "
                    "and implies(not x.server, restartable(x)) and implies(n.dynamic_classes, has(x, 'class_change_date'))))")
    M["dyn_ok"] = "lambda n: implies(n.dynamic_classes, has(n, 'next_class_change_ind'))"

    AT_SELF = "@lambda o: ref_eq(loc(o), self)"
    BSIP_MOD = ([f + AT_SELF for f in IND_FIELDS] + [f + "@S(self.servers)" for f in SRV_FIELDS] +
                ["number_in_service@self", "next_class_change_date@self", "next_class_change_ind@self"])

    add(spec, "Node.find_next_class_change",
        requires=[INV("shape(self)"),
                  "forall_in(self.individuals, lambda q: forall_in(q, lambda i: has(i, 'class_change_date')))"],
        modifies=["next_class_change_date@self", "next_class_change_ind@self"], allocates=True,
        loop_invariants={0: [
            "has(self, 'next_class_change_ind')", "is_number(self.next_class_change_date)",
            "forall_int(lambda j: implies(0 <= j and j < _i and not _it[j].server, self.next_class_change_date <= _it[j].class_change_date), trigger=lambda j: _it[j])",
            "implies(self.next_class_change_ind is not None, self.next_class_change_ind in _it and not self.next_class_change_ind.server "
            "and self.next_class_change_ind.class_change_date == self.next_class_change_date)",
            "implies(self.next_class_change_ind is None, isinf(self.next_class_change_date))",
        ]},
        ensures=[
            ("C14:both-attributes-exist", "has(self, 'next_class_change_ind')"),
            ("C09:earliest-waiting-class-change",
             "forall_in(self.individuals, lambda q: forall_in(q, lambda i: implies(not i.server, self.next_class_change_date <= i.class_change_date)))"),
            ("C09:attained", "implies(self.next_class_change_ind is not None, not self.next_class_change_ind.server "
                             "and self.next_class_change_ind.class_change_date == self.next_class_change_date)"),
            ("none-iff-inf", "implies(self.next_class_change_ind is None, isinf(self.next_class_change_date))"),
        ],
        props=["C09", "C14"])

    # ---- candidates for the node's next event -------------------------------------------------------------
    PNE_MOD = ["$dict@self.possible_next_events", "$seq[Local]"]
    add(spec, "Node.update_next_end_service_with_server",
        requires=["has(self, 'possible_next_events')", INV("has_servers(self)"),
                  "implies(not self.slotted and not isinf(self.c), 'end_service' not in self.possible_next_events)"],
        modifies=PNE_MOD, allocates=True,
        ensures=[
            ("not-applicable-nothing-written", "implies(self.slotted or isinf(self.c), ref_eq(pne(self, 'end_service'), old(pne(self, 'end_service'))) "
             "and ('end_service' in self.possible_next_events) == old('end_service' in self.possible_next_events))"),
            ("C02+C07:end-service-date-is-the-earliest-server-end-date",
             "implies(not self.slotted and not isinf(self.c), forall_in(self.servers, lambda s: pdate(self, 'end_service') <= s.next_end_service_date))"),
            ("C02:attained-by-a-server",
             "implies(not self.slotted and not isinf(self.c) and 'end_service' in self.possible_next_events, exists_in(self.servers, lambda s: s.next_end_service_date == pdate(self, 'end_service')))"),
            ("C07:blocked-or-idle-servers-are-no-candidates",
             "implies(not self.slotted and not isinf(self.c) and 'end_service' in self.possible_next_events, not isinf(pdate(self, 'end_service')) and is_list(self.possible_next_events['end_service'][0]) and "
             "forall_in(as_list(self.possible_next_events['end_service'][0], 'Any'), lambda c: exists_in(self.servers, lambda s: ref_eq(s.cust, c) "
             "and s.next_end_service_date == pdate(self, 'end_service'))))"),
            ("others-untouched", "forall_in(['slotted_service', 'shift_change', 'class_change', 'renege'], lambda k: ref_eq(pne(self, k), old(pne(self, k))) and (k in self.possible_next_events) == old(k in self.possible_next_events))"),
        ],
        loop_invariants={0: [
            "is_number(next_end_service_date)",
            "forall_int(lambda j: implies(0 <= j and j < _i, next_end_service_date <= _it[j].next_end_service_date), trigger=lambda j: _it[j])",
            "('end_service' in self.possible_next_events) == (not isinf(next_end_service_date))",
            "implies('end_service' in self.possible_next_events, pdate(self, 'end_service') == next_end_service_date "
            "and is_list(self.possible_next_events['end_service'][0]) and not alive_before_loop(self.possible_next_events['end_service'][0]) "
            "and exists_int(lambda j: 0 <= j and j < _i and _it[j].next_end_service_date == next_end_service_date, trigger=lambda j: _it[j]) "
            "and forall_in(as_list(self.possible_next_events['end_service'][0], 'Any'), lambda c: exists_int(lambda j: 0 <= j and j < _i and ref_eq(_it[j].cust, c) "
            "and _it[j].next_end_service_date == next_end_service_date, trigger=lambda j: _it[j])))",
            "forall_in(['slotted_service', 'shift_change', 'class_change', 'renege'], lambda k: ref_eq(pne(self, k), old(pne(self, k))) and (k in self.possible_next_events) == old(k in self.possible_next_events))",
        ]},
        props=["C02", "C07"])

    add(spec, "Node.update_next_end_service_without_server",
        requires=["has(self, 'possible_next_events')", INV("shape(self)"), "'end_service' not in self.possible_next_events"],
        modifies=PNE_MOD, allocates=True,
        ensures=[
            ("not-applicable-nothing-written", "implies(not (self.slotted or isinf(self.c)), 'end_service' not in self.possible_next_events)"),
            ("C02:no-earlier-pending-service-end",
             "implies(self.slotted or isinf(self.c), forall_in(self.individuals, lambda q: forall_in(q, lambda i: "
             "implies(not i.is_blocked and is_time(i.service_end_date) and i.service_end_date >= self.now, pdate(self, 'end_service') <= i.service_end_date))))"),
            ("C02+C07:candidates-are-unblocked-customers-in-service-ending-then",
             "implies('end_service' in self.possible_next_events, not isinf(pdate(self, 'end_service')) and pdate(self, 'end_service') >= self.now "
             "and is_list(self.possible_next_events['end_service'][0]) and "
             "forall_in(as_list(self.possible_next_events['end_service'][0], 'Any'), lambda c: is_obj(c, 'Individual') and not as_obj(c, 'Individual').is_blocked "
             "and is_time(as_obj(c, 'Individual').service_end_date) and as_obj(c, 'Individual').service_end_date == pdate(self, 'end_service')))"),
            ("others-untouched", "forall_in(['slotted_service', 'shift_change', 'class_change', 'renege'], lambda k: ref_eq(pne(self, k), old(pne(self, k))) and (k in self.possible_next_events) == old(k in self.possible_next_events))"),
        ],
        loop_invariants={0: [
            "is_time(next_end_service_date)",
            "forall_int(lambda j: implies(0 <= j and j < _i and not _it[j].is_blocked and is_time(_it[j].service_end_date) and _it[j].service_end_date >= self.now, "
            "next_end_service_date <= _it[j].service_end_date), trigger=lambda j: _it[j])",
            "('end_service' in self.possible_next_events) == (not isinf(next_end_service_date))",
            "implies('end_service' in self.possible_next_events, pdate(self, 'end_service') == next_end_service_date and next_end_service_date >= self.now "
            "and is_list(self.possible_next_events['end_service'][0]) and not alive_before_loop(self.possible_next_events['end_service'][0]) "
            "and forall_in(as_list(self.possible_next_events['end_service'][0], 'Any'), lambda c: is_obj(c, 'Individual') and not as_obj(c, 'Individual').is_blocked "
            "and is_time(as_obj(c, 'Individual').service_end_date) and as_obj(c, 'Individual').service_end_date == next_end_service_date))",
            "forall_in(['slotted_service', 'shift_change', 'class_change', 'renege'], lambda k: ref_eq(pne(self, k), old(pne(self, k))) and (k in self.possible_next_events) == old(k in self.possible_next_events))",
        ]},
        props=["C02", "C07", "C12"])

    # ---- class change while waiting: draw the next class and date (C09 / C02 / C10) ----------------------------
    add(spec, "Node.decide_class_change",
        types={"next_individual": IND},
        requires=[INV("shape(self)"), INV("net_ok(self)"), "cls_ok(self, next_individual)", INV("float_clock(self)"),
                  "implies(self.dynamic_classes is True, forall_in(self.individuals, lambda q: forall_in(q, lambda i: "
                  "ref_eq(i, next_individual) or has(i, 'class_change_date'))))"],
        modifies=["next_class@next_individual", "class_change_date@next_individual", "next_class_change_date@self",
                  "next_class_change_ind@self"], allocates=True,
        ensures=[
            ("C14:bookkeeping-exists", "implies(self.dynamic_classes is True, has(next_individual, 'class_change_date') "
                                       "and has(next_individual, 'next_class') and has(self, 'next_class_change_ind'))"),
            ("C02:class-change-not-scheduled-in-the-past",
             "implies(self.dynamic_classes is True, next_individual.class_change_date >= self.now)"),
            ("static-classes-nothing-happens", "implies(not (self.dynamic_classes is True), same('class_change_date', 'next_class'))"),
        ],
        loop_invariants={0: ["is_fin(next_time) or is_pinf(next_time)", "next_time >= 0"]},
        raises=[("ValueError", "True")],
        props=["C02", "C09", "C10"])

    # ---- restarting interrupted customers (pre-emptive shift end) -------------------------------------------
    M["interrupted_head_ok"] = (
        "lambda n: len(n.interrupted_individuals) > 0 and cls_ok(n, n.interrupted_individuals[0]) and ref_eq(loc(n.interrupted_individuals[0]), n) "
        "and has(n.interrupted_individuals[0], 'time_left') and has(n.interrupted_individuals[0], 'original_service_time') "
        "and (n.interrupted_individuals[0].service_time == 'resample' or n.interrupted_individuals[0].service_time == 'restart' "
        "     or n.interrupted_individuals[0].service_time == 'resume') "
        "and is_fin(n.interrupted_individuals[0].time_left) and n.interrupted_individuals[0].time_left >= 0 and is_time(n.interrupted_individuals[0].original_service_time) "
        "and is_fin(n.interrupted_individuals[0].original_service_time) and n.interrupted_individuals[0].original_service_time >= 0 "
        "and implies(n.interrupted_individuals[0].is_blocked, is_int(n.interrupted_individuals[0].destination) "
        "    and 1 <= n.interrupted_individuals[0].destination and n.interrupted_individuals[0].destination <= n.simulation.network.number_of_nodes "
        "    and is_obj(n.simulation.nodes[n.interrupted_individuals[0].destination], 'Node') "
        "    and (n.id_number, n.interrupted_individuals[0].id_number) in as_obj(n.simulation.nodes[n.interrupted_individuals[0].destination], 'Node').blocked_queue)")

    add(spec, "Node.begin_interrupted_individuals_service",
        types={"srvr": SRV},
        requires=[INV("net_ok(self)"), INV("float_clock(self)"), "interrupted_head_ok(self)"],
        modifies=[f + "@self.interrupted_individuals[0]" for f in RESTART_FIELDS] +
                 [f + "@srvr" for f in ATTACH_FIELDS] +
                 ["number_in_service@self", "number_interrupted_individuals@self", "$seq@self.interrupted_individuals",
                  "$seq[BlockedQ]", "len_blocked_queue"],
        allocates=True, raises=[("ValueError", "True")],
        ensures=[
            ("C02+C12:interrupted-customer-restarted-first-and-now",
             "old(self.interrupted_individuals[0]).service_start_date == self.now and ref_eq(srvr.cust, old(self.interrupted_individuals[0])) "
             "and srvr.busy and ref_eq(old(self.interrupted_individuals[0]).server, srvr) and not old(self.interrupted_individuals[0]).interrupted"),
            ("C02:service-end-is-start-plus-service-time",
             "old(self.interrupted_individuals[0]).service_end_date == self.now + old(self.interrupted_individuals[0]).service_time "
             "and srvr.next_end_service_date == old(self.interrupted_individuals[0]).service_end_date"),
            ("C11+C12:resume-restart-option-honoured",
             "implies(old(self.interrupted_individuals[0].service_time) == 'resume', old(self.interrupted_individuals[0]).service_time == old(self.interrupted_individuals[0].time_left)) and "
             "implies(old(self.interrupted_individuals[0].service_time) == 'restart', old(self.interrupted_individuals[0]).service_time == old(self.interrupted_individuals[0].original_service_time))"),
            ("C02+C10:restarted-service-time-is-non-negative", "old(self.interrupted_individuals[0]).service_time >= 0"),
            ("C09+C12:removed-from-the-interrupted-list-and-counted-in-service",
             "S(self.interrupted_individuals) == remove_at(old(S(self.interrupted_individuals)), 0) and "
             "self.number_interrupted_individuals == old(self.number_interrupted_individuals) - 1 and self.number_in_service == old(self.number_in_service) + 1"),
            ("C07:unblocked-customer-leaves-the-blocked-queue",
             "implies(old(self.interrupted_individuals[0].is_blocked), not old(self.interrupted_individuals[0]).is_blocked)"),
            ("C03+C07:exactly-its-own-entry-leaves-the-blocked-queue-of-its-destination",
             "implies(old(self.interrupted_individuals[0].is_blocked), "
             "S(old(as_obj(self.simulation.nodes[self.interrupted_individuals[0].destination], 'Node')).blocked_queue) == "
             "remove1(old(S(as_obj(self.simulation.nodes[self.interrupted_individuals[0].destination], 'Node').blocked_queue)), "
             "(self.id_number, old(self.interrupted_individuals[0]).id_number)))"),
            ("C07+C14:the-destination's-blocked-counter-follows-its-queue",
             "implies(old(self.interrupted_individuals[0].is_blocked), "
             "old(as_obj(self.simulation.nodes[self.interrupted_individuals[0].destination], 'Node')).len_blocked_queue == "
             "old(as_obj(self.simulation.nodes[self.interrupted_individuals[0].destination], 'Node').len_blocked_queue) - 1)"),
            ("C07:a-customer-that-was-not-blocked-touches-no-blocked-queue",
             "implies(not old(self.interrupted_individuals[0].is_blocked), same('len_blocked_queue'))"),
        ],
        props=["C02", "C03", "C05", "C07", "C11", "C12", "C14"])

    # ---- starting the next service when a server is freed (release) ---------------------------------------------
    add(spec, "Node.begin_service_if_possible_release",
        types={"next_individual": IND, "newly_free_server": "opt:" + SRV},
        requires=[INV("shape(self)"), INV("net_ok(self)"), INV("float_clock(self)"), INV("has_servers(self)"), INV("dyn_ok(self)"), INV("pop_fwd(self)"),
                  INV("all_waiting_ok(self)"), "implies(isinf(self.c), newly_free_server is None)",
                  INV("self.number_interrupted_individuals == len(self.interrupted_individuals)"),
                  "implies(newly_free_server is not None and newly_free_server in self.servers, not newly_free_server.busy)",
                  INV("implies(not isinf(self.c) and self.number_interrupted_individuals > 0, interrupted_head_ok(self))"),
                  INV("implies(self.dynamic_classes, forall_in(self.individuals, lambda q: forall_in(q, lambda i: has(i, 'class_change_date'))))")],
        modifies=[f + AT_SELF for f in RESTART_FIELDS] + [f + "@newly_free_server" for f in ATTACH_FIELDS] +
                 ["number_in_service@self", "next_class_change_date@self", "next_class_change_ind@self",
                  "number_interrupted_individuals@self", "$seq@self.interrupted_individuals", "$seq[BlockedQ]", "len_blocked_queue"],
        allocates=True, raises=[("ValueError", "True")],
        ensures=[
            ("C05:freed-server-not-left-idle-while-someone-waits",
             "implies(newly_free_server is not None and newly_free_server in self.servers and not newly_free_server.busy, "
             "forall_in(self.individuals, lambda q: forall_in(q, lambda i: i.server)) and self.number_interrupted_individuals == 0)"),
            ("C04:at-most-one-service-started",
             "self.number_in_service == old(self.number_in_service) or self.number_in_service == old(self.number_in_service) + 1"),
            ("C04+C05:started-iff-the-freed-server-is-now-busy",
             "implies(newly_free_server is not None and newly_free_server in self.servers, "
             "(self.number_in_service == old(self.number_in_service) + 1) == newly_free_server.busy)"),
            ("C02+C10:a-started-service-starts-now-and-ends-after-its-service-time",
             "implies(newly_free_server is not None and newly_free_server in self.servers and newly_free_server.busy, "
             "is_obj(newly_free_server.cust, 'Individual') and as_obj(newly_free_server.cust, 'Individual').service_start_date == self.now "
             "and as_obj(newly_free_server.cust, 'Individual').service_end_date == self.now + as_obj(newly_free_server.cust, 'Individual').service_time "
             "and as_obj(newly_free_server.cust, 'Individual').service_time >= 0 "
             "and newly_free_server.next_end_service_date == as_obj(newly_free_server.cust, 'Individual').service_end_date "
             "and ref_eq(as_obj(newly_free_server.cust, 'Individual').server, newly_free_server))"),
            ("no-usable-server-nothing-happens",
             "implies(newly_free_server is None or not (newly_free_server in self.servers), same('service_start_date', 'service_end_date', 'server', 'number_in_service', 'cust', 'busy'))"),
            ("C11+C12:a-pre-empted-customer-that-is-served-again-gets-the-time-its-option-prescribes",
             "implies(newly_free_server is not None and newly_free_server in self.servers and newly_free_server.busy, "
             "implies(oldf(as_obj(newly_free_server.cust, 'Individual'), 'service_time') == 'resume', "
             "        as_obj(newly_free_server.cust, 'Individual').service_time == oldf(as_obj(newly_free_server.cust, 'Individual'), 'time_left')) and "
             "implies(oldf(as_obj(newly_free_server.cust, 'Individual'), 'service_time') == 'restart', "
             "        as_obj(newly_free_server.cust, 'Individual').service_time == oldf(as_obj(newly_free_server.cust, 'Individual'), 'original_service_time')))"),
        ],
        props=["C02", "C04", "C05", "C08", "C10", "C11", "C12"])

    # ---- priority pre-emption decision: contracts/c_preempt.py
    M["wc"] = ("lambda n: isinf(n.c) or forall_in(n.servers, lambda s: s.busy) or "
               "forall_obj('Individual', lambda i: implies(ref_eq(loc(i), n), i.server), trigger=lambda i: loc(i))")
    M["wc_except"] = ("lambda n, x: isinf(n.c) or forall_in(n.servers, lambda s: s.busy) or "
                      "forall_obj('Individual', lambda i: implies(ref_eq(loc(i), n) and not ref_eq(i, x), i.server), trigger=lambda i: loc(i))")

    # I-SRV for pre-emptive nodes: a busy server serves a customer who is in service here (and, scope of C11, not blocked)
    M["servers_serving_ok"] = ("lambda n: forall_in(n.servers, lambda s: implies(s.busy, is_obj(s.cust, 'Individual') "
                               "and in_service_here(n, as_obj(s.cust, 'Individual')) and ref_eq(as_obj(s.cust, 'Individual').server, s) "
                               "and prio_ok(n, as_obj(s.cust, 'Individual')) and prev_prio_ok(n, as_obj(s.cust, 'Individual')) "
                               "and as_obj(s.cust, 'Individual') in n.individuals[as_obj(s.cust, 'Individual').prev_priority_class] "
                               "and float_dates(as_obj(s.cust, 'Individual')) and counted_class(as_obj(s.cust, 'Individual')) == as_obj(s.cust, 'Individual').previous_class "
                               "and (s.shift_end is False or is_fin(s.shift_end))))")
    M["no_inversion"] = ("lambda n: forall_obj('Individual', lambda i: implies(ref_eq(loc(i), n) and not i.server, "
                         "forall_in(n.servers, lambda s: implies(s.busy, as_obj(s.cust, 'Individual').priority_class <= i.priority_class))), trigger=lambda i: loc(i))")
    M["no_inversion_except"] = ("lambda n, x: forall_obj('Individual', lambda i: implies(ref_eq(loc(i), n) and not i.server and not ref_eq(i, x), "
                                "forall_in(n.servers, lambda s: implies(s.busy, as_obj(s.cust, 'Individual').priority_class <= i.priority_class))), trigger=lambda i: loc(i))")
    PREEMPT_REQ = [INV("self.priority_preempt == 'resume' or self.priority_preempt == 'restart' or self.priority_preempt == 'resample' or self.priority_preempt == 'reroute'"),
                   INV("implies(self.slotted, self.c == 0)"), INV("len(self.servers) >= self.c"), INV("servers_serving_ok(self)"),
                   INV("forall_obj('Individual', lambda i: implies(ref_eq(loc(i), self) and not i.server, cls_ok(self, i)), trigger=lambda i: loc(i))"),
                   INV("filed_by_priority(self)"), INV("waiting_filed_ok(self)")]
    # I-POP backward for waiting customers: whoever waits here is filed in the line of its priority class
    M["waiting_filed_ok"] = ("lambda n: forall_obj('Individual', lambda i: implies(ref_eq(loc(i), n) and not i.server, "
                             "0 <= i.priority_class and i.priority_class < len(n.individuals) and "
                             "exists_int(lambda k: 0 <= k and k < len(n.individuals[i.priority_class]) and ref_eq(n.individuals[i.priority_class][k], i))), trigger=lambda i: loc(i))")
    # I-FILE: the customers of line p have priority class p
    M["filed_by_priority"] = ("lambda n: forall_int(lambda p: implies(0 <= p and p < len(n.individuals), forall_in(n.individuals[p], lambda i: i.priority_class == p)), "
                              "trigger=lambda p: n.individuals[p])")
    BSIPA_REQ = [INV("shape(self)"), INV("net_ok(self)"), INV("float_clock(self)"), INV("has_servers(self)"), INV("dyn_ok(self)"),
                 "cls_ok(self, next_individual)", "ref_eq(loc(next_individual), self)", "not next_individual.server",
                 "prio_ok(self, next_individual)", "next_individual in self.individuals[next_individual.priority_class]",
                 INV("pop_fwd(self)"),
                 "implies(self.dynamic_classes, forall_in(self.individuals, lambda q: forall_in(q, lambda i: "
                 "ref_eq(i, next_individual) or has(i, 'class_change_date'))))"]
    add(spec, "Node.begin_service_if_possible_accept",
        types={"next_individual": IND},
        requires=BSIPA_REQ,
        allocates=True, raises=[("ValueError", "True")],
        cases=[
            dict(name="nopreempt", when="self.priority_preempt is False or isinf(self.c)",
                 requires=[("C05:work-conserving-before-the-arrival", "wc_except(self, next_individual)")],
                 modifies=[f + AT_SELF for f in START_FIELDS] + [f + "@S(self.servers)" for f in ATTACH_FIELDS] +
                          ["number_in_service@self", "next_class_change_date@self", "next_class_change_ind@self"],
                 ensures=[
                     ("C02+C13:arrival-stamped-now", "next_individual.arrival_date == self.now"),
                     ("C13:patience-sampled-at-arrival",
                      "implies(self.reneging is True, has(next_individual, 'reneging_date') and next_individual.reneging_date >= self.now)"),
                     ("C05:work-conserving-after-the-arrival", "wc(self)"),
                     ("C05:infinite-servers-start-at-once", "implies(isinf(self.c), next_individual.service_start_date == self.now)"),
                     ("C04:at-most-one-service-started",
                      "self.number_in_service == old(self.number_in_service) or self.number_in_service == old(self.number_in_service) + 1"),
                     ("C02+C10:a-started-service-starts-now-and-lasts-its-sample",
                      "forall_obj('Individual', lambda i: implies(ref_eq(loc(i), self) and old(i.service_start_date) is False and not (i.service_start_date is False), "
                      "i.service_start_date == self.now and i.service_end_date == self.now + i.service_time and i.service_time >= 0), trigger=lambda i: loc(i))"),
                     ("C04:a-started-service-holds-a-free-server-of-this-node",
                      "implies(not isinf(self.c), forall_obj('Individual', lambda i: implies(ref_eq(loc(i), self) and old(i.service_start_date) is False and not (i.service_start_date is False), "
                      "is_obj(i.server, 'Server') and as_obj(i.server, 'Server') in self.servers and not oldf(as_obj(i.server, 'Server'), 'busy') "
                      "and ref_eq(as_obj(i.server, 'Server').cust, i) and as_obj(i.server, 'Server').busy "
                      "and as_obj(i.server, 'Server').next_end_service_date == i.service_end_date), trigger=lambda i: loc(i)))"),
                 ]),
            # pre-emptive priorities (C11).  Scope of the property: nobody at the node is blocked (servers_serving_ok).
            dict(name="preempt-requeue", when="not (self.priority_preempt is False or isinf(self.c)) and self.priority_preempt != 'reroute'",
                 requires=PREEMPT_REQ,
                 modifies=[f + AT_SELF for f in START_FIELDS + ["time_left", "original_service_time"]] + ["$seq[Records]"] +
                          [f + "@S(self.servers)" for f in ATTACH_FIELDS + ["busy_time", "total_time"]] +
                          ["number_in_service@self", "next_class_change_date@self", "next_class_change_ind@self"],
                 ensures=[
                     ("C02+C13:arrival-stamped-now", "next_individual.arrival_date == self.now"),
                     ("C13:patience-sampled-at-arrival",
                      "implies(self.reneging is True, has(next_individual, 'reneging_date') and next_individual.reneging_date >= self.now)"),
                     ("C04:at-most-one-more-in-service",
                      "self.number_in_service == old(self.number_in_service) or self.number_in_service == old(self.number_in_service) + 1"),
                 ]),
            dict(name="preempt-reroute", when="not (self.priority_preempt is False or isinf(self.c)) and self.priority_preempt == 'reroute'",
                 requires=PREEMPT_REQ, modifies=["*"], ensures=[]),
        ],
        props=["C02", "C04", "C05", "C08", "C10", "C11", "C13"])

    # ---- arrival of a customer at a node ---------------------------------------------------------------------------
    ACCEPT_REQ = [INV("shape(self)"), INV("net_ok(self)"), INV("float_clock(self)"), INV("has_servers(self)"), INV("dyn_ok(self)"), INV("pop_fwd(self)"),
                  "prio_ok(self, next_individual)", "cls_ok(self, next_individual)",
                  ("C01:customer-is-nowhere", "loc(next_individual) is None"),
                  ("C10:arrives-with-a-clean-slate-so-a-fresh-service-time-is-sampled-here",
                   "next_individual.service_time is False and next_individual.service_start_date is False and next_individual.service_end_date is False"),
                  "not next_individual.server", INV("all_waiting_ok(self)"),
                  INV("implies(self.dynamic_classes, forall_in(self.individuals, lambda q: forall_in(q, lambda i: has(i, 'class_change_date'))))")]
    add(spec, "Node.accept",
        types={"next_individual": IND, "completed": "bool"},
        requires=ACCEPT_REQ,
        allocates=True, raises=[("ValueError", "True")],
        at_call={"begin_service_if_possible_accept": [
            ("C01:appended-once-to-the-line-of-its-priority-class",
             "S(self.individuals[next_individual.priority_class]) == append1(old(S(self.individuals[next_individual.priority_class])), next_individual)"),
            ("C01:population-counter-incremented", "self.number_of_individuals == old(self.number_of_individuals) + 1"),
            ("C03:located-here", "next_individual.node == self.id_number"),
            ("C07:no-longer-blocked", "not next_individual.is_blocked"),
            ("C06:queue-size-seen-at-arrival", "next_individual.queue_size_at_arrival == old(self.number_of_individuals)"),
        ]},
        expect_calls={"begin_service_if_possible_accept": 1, "change_state_accept": 1},
        cases=[
            dict(name="nopreempt", when="self.priority_preempt is False or isinf(self.c)",
                 requires=[INV("wc(self)")],
                 modifies=[f + AT_SELF for f in START_FIELDS] + [f + "@next_individual" for f in IND_FIELDS] +
                          [f + "@S(self.servers)" for f in ATTACH_FIELDS] +
                          ["number_in_service@self", "next_class_change_date@self", "next_class_change_ind@self",
                           "number_of_individuals@self", "$seq@self.individuals[next_individual.priority_class]",
                           "loc@next_individual", "filed@next_individual", "prev_priority_class@next_individual",
                           "previous_class@next_individual", "counted_class@next_individual"] + TRK,
                 ensures=[
                     ("C01:now-located-here", "ref_eq(loc(next_individual), self) and filed(next_individual) == next_individual.priority_class"),
                     ("C01:population-counter-incremented", "self.number_of_individuals == old(self.number_of_individuals) + 1"),
                     ("C01:appended-once", "S(self.individuals[next_individual.priority_class]) == append1(old(S(self.individuals[next_individual.priority_class])), next_individual)"),
                     ("C02+C13:arrival-stamped-now", "next_individual.arrival_date == self.now"),
                     ("C05:work-conserving-after-the-arrival", "wc(self)"),
                     ("C07:no-longer-blocked", "not next_individual.is_blocked"),
                     ("C01+C14:filed-in-the-line-that-release-and-renege-will-look-in",
                      "next_individual.prev_priority_class == next_individual.priority_class"),
                     ("C17:announced-to-the-tracker-under-the-class-its-records-and-later-tracker-calls-will-name",
                      "counted_class(next_individual) == next_individual.customer_class and next_individual.previous_class == next_individual.customer_class"),
                 ]),
            dict(name="preempt", when="not (self.priority_preempt is False or isinf(self.c))", requires=PREEMPT_REQ, modifies=["*"], ensures=[]),
        ],
        props=["C01", "C02", "C03", "C05", "C06", "C07", "C13", "C14", "C17"])

    # ---- departure of a customer from a node (C01 / C03 / C04 / C07) -----------------------------------------------
    M["in_service_dates_ok"] = ("lambda n, i: is_time(i.arrival_date) and is_time(i.service_start_date) and is_time(i.service_end_date) "
                                "and is_fin(i.arrival_date) and is_fin(i.service_start_date) and is_fin(i.service_end_date) "
                                "and i.arrival_date <= i.service_start_date and i.service_start_date <= i.service_end_date "
                                "and i.service_end_date <= n.now")
    M["node_ready"] = ("lambda n, m, i: cls_is(m, 'ExitNode') or (prio_ok(as_obj(m, 'Node'), i) "
                       "and ref_eq(as_obj(m, 'Node').simulation, n.simulation))")

    add(spec, "Node.release",
        types={"next_individual": IND, "next_node": "obj:Node|ExitNode", "reroute": "bool"},
        requires=[INV("shape(self)"), INV("net_ok(self)"), INV("float_clock(self)"), INV("has_servers(self)"), INV("dyn_ok(self)"),
                  INV("pop_fwd(self)"), INV("all_waiting_ok(self)"),
                  INV("self.number_interrupted_individuals == len(self.interrupted_individuals)"),
                  INV("implies(not isinf(self.c) and self.number_interrupted_individuals > 0, interrupted_head_ok(self))"),
                  INV("implies(self.dynamic_classes, forall_in(self.individuals, lambda q: forall_in(q, lambda i: has(i, 'class_change_date'))))"),
                  "prev_prio_ok(self, next_individual)",
                  ("C01:customer-is-filed-here", "next_individual in self.individuals[next_individual.prev_priority_class] and ref_eq(loc(next_individual), self)"),
                  ("C04:customer-holds-one-of-this-nodes-servers", "holds_server(self, next_individual)"),
                  "implies(isinf(self.c), not next_individual.server)",
                  ("C06+C07:destination-has-room-unless-rerouting",
                   "reroute or cls_is(next_node, 'ExitNode') or next_node.number_of_individuals < next_node.node_capacity"),
                  "node_ready(self, next_node, next_individual)", "cls_ok(self, next_individual)", "float_dates(next_individual)",
                  "is_fin(self.next_event_date) or is_pinf(self.next_event_date)",
                  ("C02:dates-of-a-completed-service", "implies(not reroute, in_service_dates_ok(self, next_individual))"),
                  ("C17:tracker-protocol-a-blocked-customer-leaves-towards-a-service-node",
                   "implies(next_individual.is_blocked, is_obj(next_node, 'Node') and 1 <= as_obj(next_node, 'Node').id_number "
                   "and as_obj(next_node, 'Node').id_number <= nnodes())"),
                  ("C17:tracker-protocol-previous_class-is-the-class-the-customer-is-counted-under",
                   "counted_class(next_individual) == next_individual.previous_class")],
        modifies=["*"], allocates="any", raises=[("ValueError", "True")],
        at_call={"accept": [
            ("C01:removed-once-from-its-line",
             "S(self.individuals[old(next_individual.prev_priority_class)]) == remove1(old(S(self.individuals[next_individual.prev_priority_class])), next_individual)"),
            ("C01:population-counter-decremented", "self.number_of_individuals == old(self.number_of_individuals) - 1"),
            ("C09:in-service-counter-decremented", "self.number_in_service >= old(self.number_in_service) - 1 and self.number_in_service <= old(self.number_in_service)"),
            ("C01:customer-is-nowhere-between-release-and-accept", "loc(next_individual) is None"),
            ("C04:server-given-up", "not next_individual.server"),
            ("C10:the-customer-moves-on-with-a-clean-slate",
             "next_individual.service_time is False and next_individual.service_start_date is False and next_individual.service_end_date is False"),
            ("C03+C02:service-record-written-once-with-the-fixed-destination",
             "implies(not reroute, len(next_individual.data_records) == old(len(next_individual.data_records)) + 1 "
             "and next_individual.data_records[len(next_individual.data_records) - 1].node == self.id_number "
             "and ref_eq(next_individual.data_records[len(next_individual.data_records) - 1].destination, old(next_individual.destination)) "
             "and next_individual.data_records[len(next_individual.data_records) - 1].exit_date == self.now "
             "and next_individual.data_records[len(next_individual.data_records) - 1].record_type == 'service')"),
            ("C02:record-arithmetic",
             "implies(not reroute, "
             "next_individual.data_records[len(next_individual.data_records) - 1].waiting_time == old(next_individual.service_start_date) - old(next_individual.arrival_date) "
             "and next_individual.data_records[len(next_individual.data_records) - 1].waiting_time >= 0 "
             "and next_individual.data_records[len(next_individual.data_records) - 1].service_time == old(next_individual.service_end_date) - old(next_individual.service_start_date) "
             "and next_individual.data_records[len(next_individual.data_records) - 1].service_time >= 0 "
             "and next_individual.data_records[len(next_individual.data_records) - 1].time_blocked == self.now - old(next_individual.service_end_date) "
             "and next_individual.data_records[len(next_individual.data_records) - 1].time_blocked >= 0 "
             "and next_individual.data_records[len(next_individual.data_records) - 1].arrival_date == old(next_individual.arrival_date) "
             "and next_individual.data_records[len(next_individual.data_records) - 1].service_start_date == old(next_individual.service_start_date) "
             "and next_individual.data_records[len(next_individual.data_records) - 1].service_end_date == old(next_individual.service_end_date))"),
            ("C03:rerouted-customer-gets-no-service-record", "implies(reroute, len(next_individual.data_records) == old(len(next_individual.data_records)))"),
        ], "release_blocked_individual": [
            ("C07:unblocking-is-tried-only-after-the-customer-has-left", "not reroute"),
        ]},
        expect_calls={"accept": 1, "change_state_release": 1},
        ensures=[],
        props=["C01", "C02", "C03", "C04", "C06", "C07", "C09", "C17"])

    # ---- unblocking (C07): the customer blocked longest towards this node moves in as soon as there is room ----------
    # I-POP / I-FILE / I-SRV / I-BLK for one customer located at node m (ghost-based, flat)
    M["cust_ok"] = ("lambda m, i: 0 <= i.prev_priority_class and i.prev_priority_class < len(m.individuals) "
                    "and i in m.individuals[i.prev_priority_class] and holds_server(m, i) and cls_ok(m, i) "
                    "and implies(isinf(m.c), not i.server) and float_dates(i) and counted_class(i) == i.previous_class "
                    "and implies(i.is_blocked and not i.interrupted, in_service_dates_ok(m, i)) "
                    "and implies(i.interrupted, has(i, 'original_service_start_date') and has(i, 'original_service_time') "
                    "  and is_time(i.original_service_start_date) and is_fin(i.original_service_start_date) "
                    "  and is_time(i.original_service_time) and is_fin(i.original_service_time) and i.original_service_time >= 0 "
                    "  and i.original_service_start_date + i.original_service_time <= m.now and i.arrival_date <= i.original_service_start_date "
                    "  and i in m.interrupted_individuals)")
    M["all_cust_ok"] = ("lambda: forall_obj('Individual', lambda i: implies(is_obj(loc(i), 'Node'), cust_ok(as_obj(loc(i), 'Node'), i)), "
                        "trigger=lambda i: loc(i))")
    M["blk_head_ok"] = (
        "lambda n: n.len_blocked_queue == len(n.blocked_queue) and implies(n.len_blocked_queue > 0, "
        "1 <= n.blocked_queue[0][0] and n.blocked_queue[0][0] <= nnodes() and is_obj(n.simulation.nodes[n.blocked_queue[0][0]], 'Node') "
        "and shape(as_obj(n.simulation.nodes[n.blocked_queue[0][0]], 'Node')))")

    add(spec, "Node.release_blocked_individual",
        requires=[INV("shape(self)"), INV("net_ok(self)"), INV("blk_head_ok(self)"), INV("all_cust_ok()"),
                  INV("forall_obj('Node', lambda m: is_fin(m.next_event_date) or is_pinf(m.next_event_date))"),
                  INV("implies(self.len_blocked_queue > 0 and self.number_of_individuals < self.node_capacity, "
                      "exists_obj('Individual', lambda i: ref_eq(loc(i), self.simulation.nodes[self.blocked_queue[0][0]]) and i.id_number == self.blocked_queue[0][1]))")],
        modifies=["*"], allocates="any", raises=[("ValueError", "True")],
        lemma_after={"all_individuals": [
            "exists_in(result, lambda x: as_obj(x, 'Individual').id_number == self.blocked_queue[0][1])",
            "implies(as_obj(result[individual_to_receive_index], 'Individual').interrupted, "
            "  has(as_obj(result[individual_to_receive_index], 'Individual'), 'original_service_start_date') "
            "  and has(as_obj(result[individual_to_receive_index], 'Individual'), 'original_service_time') "
            "  and is_time(as_obj(result[individual_to_receive_index], 'Individual').original_service_start_date) "
            "  and is_fin(as_obj(result[individual_to_receive_index], 'Individual').original_service_start_date) "
            "  and is_time(as_obj(result[individual_to_receive_index], 'Individual').original_service_time) "
            "  and is_fin(as_obj(result[individual_to_receive_index], 'Individual').original_service_time) "
            "  and as_obj(result[individual_to_receive_index], 'Individual') in node_to_receive_from.interrupted_individuals)"]},
        # I-POP / I-FILE / I-SRV / I-BLK for the customer named by the head entry (ASSUMED here; each is what accept,
        # block_individual and the service-start functions establish for the customers they handle)
        call_assumes={"release": [
            "prev_prio_ok(self, next_individual)",
            "next_individual in self.individuals[next_individual.prev_priority_class] and ref_eq(loc(next_individual), self)",
            "holds_server(self, next_individual)", "implies(isinf(self.c), not next_individual.server)",
            "cls_ok(self, next_individual)", "float_dates(next_individual)", "prio_ok(next_node, next_individual)",
            "ref_eq(next_node.simulation, self.simulation)", "in_service_dates_ok(self, next_individual)"]},
        at_call={"release": [
            ("C07:head-of-the-blocked-queue-popped",
             "S(self.blocked_queue) == remove_at(old(S(self.blocked_queue)), 0) and self.len_blocked_queue == old(self.len_blocked_queue) - 1"),
            ("C07:only-when-there-is-room", "self.number_of_individuals < self.node_capacity"),
            ("C01:populations-untouched-until-the-release",
             "node_to_receive_from.number_of_individuals == old(node_to_receive_from.number_of_individuals) "
             "and self.number_of_individuals == old(self.number_of_individuals) "
             "and node_to_receive_from.number_in_service == old(node_to_receive_from.number_in_service)"),
            ("C07:the-customer-received-is-the-one-named-by-the-head-entry",
             "individual_to_receive.id_number == old(self.blocked_queue[0][1]) and ref_eq(node_to_receive_from, old(self.simulation.nodes[self.blocked_queue[0][0]]))"),
            ("C04+C05+C12:an-interrupted-blocked-customer-leaves-the-interrupted-list",
             "implies(old(individual_to_receive.interrupted), not individual_to_receive.interrupted "
             "and node_to_receive_from.number_interrupted_individuals == old(node_to_receive_from.number_interrupted_individuals) - 1 "
             "and S(node_to_receive_from.interrupted_individuals) == remove1(old(S(node_to_receive_from.interrupted_individuals)), individual_to_receive) "
             "and individual_to_receive.service_start_date == old(individual_to_receive.original_service_start_date))"),
            ("C12:otherwise-the-interrupted-list-is-untouched",
             "implies(not old(individual_to_receive.interrupted), node_to_receive_from.number_interrupted_individuals == old(node_to_receive_from.number_interrupted_individuals))"),
        ]},
        cases=[
            dict(name="nothing-to-do", when="not (self.len_blocked_queue > 0 and self.number_of_individuals < self.node_capacity)",
                 modifies=[], ensures=[], expect_calls={"release": 0}),
            dict(name="unblock", when="self.len_blocked_queue > 0 and self.number_of_individuals < self.node_capacity",
                 modifies=["*"], ensures=[], expect_calls={"release": 1}),
        ],
        props=["C01", "C07"])

    # ---- reneging (C13) ------------------------------------------------------------------------------------------------
    M["all_nodes_alike"] = ("lambda n: forall_obj('Node', lambda m: shape(m) and ref_eq(m.simulation, n.simulation) and 1 <= m.id_number and m.id_number <= nnodes())")
    M["renege_cand_ok"] = (
        "lambda n, x: is_obj(x, 'Individual') and prev_prio_ok(n, as_obj(x, 'Individual')) "
        "and as_obj(x, 'Individual') in n.individuals[as_obj(x, 'Individual').prev_priority_class] and ref_eq(loc(as_obj(x, 'Individual')), n) "
        "and not as_obj(x, 'Individual').server and has(as_obj(x, 'Individual'), 'reneging_date') "
        "and as_obj(x, 'Individual').reneging_date == n.now "
        "and is_time(as_obj(x, 'Individual').arrival_date) and is_fin(as_obj(x, 'Individual').arrival_date) "
        "and as_obj(x, 'Individual').arrival_date <= n.now and cls_ok(n, as_obj(x, 'Individual')) "
        "and 0 <= as_obj(x, 'Individual').priority_class and as_obj(x, 'Individual').priority_class < n.simulation.number_of_priority_classes "
        "and counted_class(as_obj(x, 'Individual')) == as_obj(x, 'Individual').previous_class")

    add(spec, "Node.renege",
        requires=[INV("shape(self)"), INV("net_ok(self)"), INV("float_clock(self)"), INV("all_nodes_alike(self)"),
                  ("C13:event-fires-for-waiting-customers-whose-patience-ends-now",
                   "is_list(self.next_individual) and len(as_list(self.next_individual, 'Any')) > 0 and "
                   "forall_in(as_list(self.next_individual, 'Any'), lambda x: renege_cand_ok(self, x))")],
        modifies=["*"], allocates="any", raises=[("ValueError", "True")],
        at_call={"accept": [
            ("C01:removed-once-from-its-line",
             "S(self.individuals[old(reneging_individual.prev_priority_class)]) == remove1(old(S(self.individuals[reneging_individual.prev_priority_class])), reneging_individual)"),
            ("C01:population-counter-decremented", "self.number_of_individuals == old(self.number_of_individuals) - 1"),
            ("C09+C13:a-waiting-customer-was-not-in-service", "self.number_in_service == old(self.number_in_service)"),
            ("C01:customer-is-nowhere-between-renege-and-accept", "loc(reneging_individual) is None"),
            ("C13:renege-record-written-once",
             "len(reneging_individual.data_records) == old(len(reneging_individual.data_records)) + 1 "
             "and reneging_individual.data_records[len(reneging_individual.data_records) - 1].record_type == 'renege' "
             "and reneging_individual.data_records[len(reneging_individual.data_records) - 1].node == self.id_number "
             "and reneging_individual.data_records[len(reneging_individual.data_records) - 1].exit_date == self.now"),
            ("C02+C13:waited-exactly-its-patience",
             "reneging_individual.data_records[len(reneging_individual.data_records) - 1].waiting_time == self.now - old(reneging_individual.arrival_date) "
             "and reneging_individual.data_records[len(reneging_individual.data_records) - 1].waiting_time >= 0"),
            ("C03:renege-record-names-the-node-the-customer-goes-to",
             "reneging_individual.data_records[len(reneging_individual.data_records) - 1].destination == next_node.id_number"),
            ("C13:the-reneger-is-one-of-the-customers-whose-patience-ended", "old(reneging_individual in as_list(self.next_individual, 'Any'))"),
            ("C13+C14:a-reneging-customer-is-handed-over-as-not-completed", "arg_completed is False"),
            ("C10+C13:the-reneger-moves-on-with-a-clean-slate",
             "reneging_individual.service_time is False and reneging_individual.service_start_date is False and reneging_individual.service_end_date is False"),
        ]},
        expect_calls={"accept": 1, "change_state_renege": 1, "release_blocked_individual": 1},
        props=["C01", "C02", "C03", "C07", "C09", "C13", "C17"])

    # ---- end of service: class change, routing, move on or block (C06 / C07 / C03) ----------------------------------
    M["finish_cand_ok"] = (
        "lambda n, x: is_obj(x, 'Individual') and prev_prio_ok(n, as_obj(x, 'Individual')) and prio_ok(n, as_obj(x, 'Individual')) "
        "and as_obj(x, 'Individual').prev_priority_class == as_obj(x, 'Individual').priority_class "
        "and as_obj(x, 'Individual') in n.individuals[as_obj(x, 'Individual').priority_class] and ref_eq(loc(as_obj(x, 'Individual')), n) "
        "and holds_server(n, as_obj(x, 'Individual')) and implies(isinf(n.c), not as_obj(x, 'Individual').server) "
        "and not as_obj(x, 'Individual').is_blocked and cls_ok(n, as_obj(x, 'Individual')) and float_dates(as_obj(x, 'Individual')) "
        "and in_service_dates_ok(n, as_obj(x, 'Individual')) and as_obj(x, 'Individual').service_end_date == n.now "
        "and counted_class(as_obj(x, 'Individual')) == as_obj(x, 'Individual').customer_class "
        "and as_obj(x, 'Individual').previous_class == as_obj(x, 'Individual').customer_class")
    M["class_change_ok"] = (
        "lambda n: implies(n.class_change, forall_member(n.simulation.network.customer_class_names, lambda a: "
        "forall_in(n.simulation.network.customer_class_names, lambda b: is_fin(n.class_change[a][b]) and n.class_change[a][b] >= 0)))")

    add(spec, "Node.finish_service",
        requires=[INV("shape(self)"), INV("net_ok(self)"), INV("float_clock(self)"), INV("has_servers(self)"), INV("dyn_ok(self)"),
                  INV("pop_fwd(self)"), INV("all_waiting_ok(self)"), INV("all_nodes_alike(self)"), INV("class_change_ok(self)"),
                  INV("self.number_interrupted_individuals == len(self.interrupted_individuals)"),
                  INV("implies(not isinf(self.c) and self.number_interrupted_individuals > 0, interrupted_head_ok(self))"),
                  INV("implies(self.dynamic_classes, forall_in(self.individuals, lambda q: forall_in(q, lambda i: has(i, 'class_change_date'))))"),
                  "is_fin(self.next_event_date) or is_pinf(self.next_event_date)",
                  INV("implies(self.slotted, self.c == 0)"),
                  INV("forall_obj('ExitNode', lambda x: isinf(x.node_capacity))"),
                  ("C02:event-fires-for-unblocked-customers-whose-service-ends-now",
                   "is_list(self.next_individual) and len(as_list(self.next_individual, 'Any')) > 0 and "
                   "forall_in(as_list(self.next_individual, 'Any'), lambda x: finish_cand_ok(self, x))")],
        call_assumes={"random_choice": ["implies(probs is not None, sum_r(probs) == 1)"]},
        modifies=["*"], allocates="any", raises=[("ValueError", "True")],
        at_call={"release": [
            ("C03:destination-fixed-once-before-leaving", "next_individual.destination == next_node.id_number"),
            ("C07:moves-on-at-once-only-if-the-destination-has-room", "next_node.number_of_individuals < next_node.node_capacity"),
        ], "block_individual": [
            ("C03:destination-fixed-once-before-blocking", "next_individual.destination == next_node.id_number"),
            ("C07:the-blocked-customer-keeps-its-server-and-is-not-finished-again",
             "implies(not isinf(self.c) and not self.slotted, is_obj(next_individual.server, 'Server') "
             "and is_pinf(as_obj(next_individual.server, 'Server').next_end_service_date) and ref_eq(next_individual.server, old(next_individual.server)))"),
            ("C01:a-blocked-customer-stays-where-it-is", "ref_eq(loc(next_individual), self) and self.number_of_individuals == old(self.number_of_individuals)"),
        ]},
        props=["C03", "C06", "C07", "C09"])

    add(spec, "Node.update_next_renege_time",
        requires=["has(self, 'possible_next_events')", INV("shape(self)"), INV("pop_fwd(self)"),
                  "implies(not isinf(self.c) and self.reneging is True, 'renege' not in self.possible_next_events)",
                  INV("implies(not isinf(self.c) and self.reneging is True, forall_in(self.individuals, lambda q: forall_in(q, lambda i: has(i, 'reneging_date'))))")],
        modifies=PNE_MOD, allocates=True,
        ensures=[
            ("not-applicable-nothing-written", "implies(isinf(self.c) or not (self.reneging is True), ref_eq(pne(self, 'renege'), old(pne(self, 'renege'))) "
             "and ('renege' in self.possible_next_events) == old('renege' in self.possible_next_events))"),
            ("C13:renege-date-is-the-earliest-patience-end-among-waiting-customers",
             "implies(not isinf(self.c) and self.reneging is True, forall_in(self.individuals, lambda q: forall_in(q, lambda i: "
             "implies(not i.server, pdate(self, 'renege') <= i.reneging_date))))"),
            ("C13:candidates-are-waiting-customers-whose-patience-ends-then",
             "implies(not isinf(self.c) and self.reneging is True and 'renege' in self.possible_next_events, not isinf(pdate(self, 'renege')) "
             "and is_list(self.possible_next_events['renege'][0]) and "
             "forall_in(as_list(self.possible_next_events['renege'][0], 'Any'), lambda c: is_obj(c, 'Individual') and not as_obj(c, 'Individual').server "
             "and as_obj(c, 'Individual').reneging_date == pdate(self, 'renege')))"),
            ("others-untouched", "forall_in(['slotted_service', 'shift_change', 'class_change', 'end_service'], lambda k: ref_eq(pne(self, k), old(pne(self, k))) and (k in self.possible_next_events) == old(k in self.possible_next_events))"),
        ],
        loop_invariants={0: [
            "is_time(next_renege_date)",
            "forall_int(lambda j: implies(0 <= j and j < _i and not _it[j].server, next_renege_date <= _it[j].reneging_date), trigger=lambda j: _it[j])",
            "('renege' in self.possible_next_events) == (not isinf(next_renege_date))",
            "implies('renege' in self.possible_next_events, pdate(self, 'renege') == next_renege_date "
            "and is_list(self.possible_next_events['renege'][0]) and not alive_before_loop(self.possible_next_events['renege'][0]) "
            "and forall_in(as_list(self.possible_next_events['renege'][0], 'Any'), lambda c: is_obj(c, 'Individual') and not as_obj(c, 'Individual').server "
            "and as_obj(c, 'Individual').reneging_date == next_renege_date))",
            "forall_in(['slotted_service', 'shift_change', 'class_change', 'end_service'], lambda k: ref_eq(pne(self, k), old(pne(self, k))) and (k in self.possible_next_events) == old(k in self.possible_next_events))",
        ]},
        props=["C13"])

    # ---- the node's next event: the earliest of all candidates (C02) ---------------------------------------------------
    add(spec, "Node.update_next_event_date",
        requires=[INV("shape(self)"), INV("pop_fwd(self)"), INV("has_servers(self)"), INV("dyn_ok(self)"),
                  INV("implies(not isinf(self.c) and self.reneging is True, forall_in(self.individuals, lambda q: forall_in(q, lambda i: has(i, 'reneging_date'))))"),
                  INV("implies(self.schedule is not None and self.schedule.schedule_type == 'schedule', has(self, 'next_shift_change'))"),
                  INV("implies(self.schedule is not None and self.schedule.schedule_type == 'slotted', cls_is(self.schedule, 'Slotted'))")],
        modifies=["possible_next_events@self", "next_event_date@self", "next_event_type@self", "next_individual@self",
                  "$dict[Local]", "$dict[PNE]", "$seq[Local]"], allocates=True,
        ensures=[
            ("C02+C07:not-later-than-any-server-end-date",
             "implies(not self.slotted and not isinf(self.c), forall_in(self.servers, lambda s: self.next_event_date <= s.next_end_service_date))"),
            ("C02+C13:not-later-than-any-waiting-customers-patience",
             "implies(not isinf(self.c) and self.reneging is True, forall_in(self.individuals, lambda q: forall_in(q, lambda i: "
             "implies(not i.server, self.next_event_date <= i.reneging_date))))"),
            ("C02+C12:not-later-than-the-next-shift-change",
             "implies(self.schedule is not None and self.schedule.schedule_type == 'schedule', self.next_event_date <= self.next_shift_change)"),
            ("C02+C12:not-later-than-the-next-slot",
             "implies(self.schedule is not None and self.schedule.schedule_type == 'slotted', self.next_event_date <= as_obj(self.schedule, 'Slotted').next_slot_date)"),
            ("C14:event-type-is-known", "self.next_event_type is None or self.next_event_type == 'end_service' or self.next_event_type == 'renege' "
             "or self.next_event_type == 'shift_change' or self.next_event_type == 'class_change' or self.next_event_type == 'slotted_service'"),
            ("C14:bookkeeping-exists", "has(self, 'possible_next_events')"),
        ],
        props=["C02", "C07", "C12", "C13", "C14"])

    # ---- placeholders (ASSUMED, not verified yet): the three remaining event handlers ------------------------------
    for h in ["change_shift", "slotted_service"]:
        add(spec, "Node." + h, modifies=["*"], allocates="any", assumed=True, raises=[("ValueError", "True")],
            note="event handler not under contract yet: may change anything its call graph can write")

    # ---- end-of-run statistics (C04 utilisation, C14, C20) ----------------------------------------------------------
    add(spec, "Node.wrap_up_servers",
        types={"current_time": "time"},
        requires=[INV("has_servers(self)"), "is_fin(current_time)", INV("implies(not isinf(self.c), nodup(self.servers))"),
                  INV("forall_in(self.servers, lambda s: is_fin(s.start_date) and is_fin(s.busy_time) and "
                      "implies(s.busy, is_obj(s.cust, 'Individual') and (as_obj(s.cust, 'Individual').service_start_date is False "
                      "or is_fin(as_obj(s.cust, 'Individual').service_start_date))))")],
        modifies=["total_time@S(self.servers)", "busy_time@S(self.servers)"],
        ensures=[
            ("C04:total-time-is-the-time-since-the-server-started",
             "implies(not isinf(self.c), forall_in(self.servers, lambda s: s.total_time == current_time - s.start_date))"),
            ("C04:a-busy-servers-current-service-is-counted-up-to-the-stop",
             "implies(not isinf(self.c), forall_in(self.servers, lambda s: implies(s.busy and not (as_obj(s.cust, 'Individual').service_start_date is False), "
             "s.busy_time == old(s.busy_time) + (current_time - as_obj(s.cust, 'Individual').service_start_date)) "
             "and implies(not s.busy, s.busy_time == old(s.busy_time))))"),
        ],
        loop_invariants={0: [
            "forall_int(lambda j: implies(0 <= j and j < _i, _it[j].total_time == current_time - _it[j].start_date "
            "and implies(_it[j].busy and not (as_obj(_it[j].cust, 'Individual').service_start_date is False), "
            "_it[j].busy_time == old(_it[j].busy_time) + (current_time - as_obj(_it[j].cust, 'Individual').service_start_date)) "
            "and implies(not _it[j].busy, _it[j].busy_time == old(_it[j].busy_time))), trigger=lambda j: _it[j])",
            "forall_int(lambda j: implies(_i <= j and j < len(_it), _it[j].busy_time == old(_it[j].busy_time)), trigger=lambda j: _it[j])",
            "forall_in(_it, lambda s: is_fin(s.busy_time))",
            "nodup(_it)",
        ]},
        props=["C04", "C14", "C16", "C20"])

    add(spec, "Node.find_server_utilisation",
        requires=[INV("has_servers(self)"),
                  INV("forall_in(self.servers, lambda s: is_time(s.total_time) and is_fin(s.total_time) and is_fin(s.busy_time) "
                      "and 0 <= s.busy_time and s.busy_time <= s.total_time)"),
                  INV("forall_in(self.all_servers_total, lambda x: is_fin(x) and x >= 0) and forall_in(self.all_servers_busy, lambda x: is_fin(x) and x >= 0)"),
                  INV("sum_r(self.all_servers_busy) <= sum_r(self.all_servers_total) and 0 <= sum_r(self.all_servers_busy)")],
        modifies=["server_utilisation@self", "$seq@self.all_servers_total", "$seq@self.all_servers_busy"], allocates=True,
        ensures=[
            ("C04:no-servers-no-utilisation", "implies(isinf(self.c) or self.c == 0, self.server_utilisation is None)"),
            ("C14:attribute-exists", "has(self, 'server_utilisation')"),
            ("C04:utilisation-is-busy-time-over-total-time-and-lies-in-0-1",
             "implies(self.server_utilisation is not None, sum_r(self.all_servers_total) > 0 "
             "and real(self.server_utilisation) * sum_r(self.all_servers_total) == sum_r(self.all_servers_busy) "
             "and 0 <= self.server_utilisation and self.server_utilisation <= 1)"),
            ("C04:every-servers-times-are-added-once",
             "implies(not isinf(self.c) and not (self.c == 0), len(self.all_servers_total) == old(len(self.all_servers_total)) + len(self.servers) "
             "and len(self.all_servers_busy) == old(len(self.all_servers_busy)) + len(self.servers))"),
        ],
        loop_invariants={0: [
            "forall_in(self.all_servers_total, lambda x: is_fin(x))", "forall_in(self.all_servers_busy, lambda x: is_fin(x))",
            "sum_r(self.all_servers_busy) <= sum_r(self.all_servers_total) and 0 <= sum_r(self.all_servers_busy)",
            "len(self.all_servers_total) == old(len(self.all_servers_total)) + _i and len(self.all_servers_busy) == old(len(self.all_servers_busy)) + _i",
        ]},
        props=["C04", "C14"])
