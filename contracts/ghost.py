"""Ghost state (lives only in the verifier).  Updates are bound to semantic heap events, never to
line numbers or statement text, so reordering independent statements does not disturb them.

  loc(i)    where customer i currently is: None (nowhere: just created, or between a release and the
            next accept) or the node object whose list holds it.   Updated on append / remove / pop
            on a list of kind IndQ (a priority line of a service node) or ExitList (the exit node).
  filed(i)  index of the priority line of loc(i) that holds i.

Event obligations (kind `ghost`, property C01): a customer may only be appended to a line when it is
nowhere -- so no customer is ever in two places.
"""
import z3
from pyvc.smt import Val
from pyvc.symexec import SV, owner_of, slot_of


def declare(spec):
    spec.ghost["loc"] = "val"
    spec.ghost["filed"] = "int"
    # counted_class(i): the customer class under which the state tracker currently counts customer i (None: not counted).
    # Written only by the ghost statements of the tracker contracts (accept / classchange / release).
    spec.ghost["counted_class"] = "val"
    spec.on_event = on_event
    spec.on_alloc = on_alloc


def on_alloc(ex, st, clsname, r):
    if clsname == "Individual":
        loc = ex.heap_get(st, "loc")
        ex.heap_set(st, "loc", z3.Store(loc, r, Val.none))


def on_event(ex, st, ev, l, x, node):
    h = l.h
    if h is None or h.kind != "list" or h.name not in ("IndQ", "ExitList"):
        return
    if x.k == "ref":
        xo = x.t
    elif x.k == "val":
        xo = Val.o(x.t)
    else:
        return
    loc = ex.heap_get(st, "loc")
    if ev == "append":
        ex.oblige(st, "ghost", "C01:appended-customer-was-nowhere", node, loc[xo] == Val.none)
        ex.heap_set(st, "loc", z3.Store(loc, xo, Val.ref(owner_of(l.t))))
        if h.name == "IndQ":
            filed = ex.heap_get(st, "filed")
            ex.heap_set(st, "filed", z3.Store(filed, xo, slot_of(l.t)))
    elif ev == "remove":
        ex.heap_set(st, "loc", z3.Store(loc, xo, Val.none))
