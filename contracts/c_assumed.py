"""Class-level contracts for dynamically dispatched collaborators.  They are ASSUMED at call sites in
node.py (listed in trusted_base) and -- for the repo's own trackers / routers / detectors -- each
concrete method is verified against the same frame in the units of C09 / C17 / C18."""
from . import add

TRK_MOD = ["state", "increment", "$seq[TrackerState]", "$seq[TrackerRow]", "$seq[TrackerCell]", "$seq[TrackerOrder]",
           "$seq[History]", "$seq[HistEntry]"]
NODE_OR_EXIT = "obj:Node|ExitNode"


def declare(spec):
    for m, params in [("change_state_accept", {"node": "obj:Node", "ind": "obj:Individual"}),
                      ("change_state_block", {"node": "obj:Node", "destination": "obj:Node", "ind": "obj:Individual"}),
                      ("change_state_release", {"node": "obj:Node", "destination": NODE_OR_EXIT, "ind": "obj:Individual", "blocked": "bool"}),
                      ("change_state_renege", {"node": "obj:Node", "destination": NODE_OR_EXIT, "ind": "obj:Individual", "blocked": "bool"}),
                      ("change_state_classchange", {"node": "obj:Node", "ind": "obj:Individual"})]:
        req = [("tracker-protocol:node-is-a-service-node-of-this-network", "1 <= node.id_number and node.id_number <= nnodes()")]
        ens, mod = [], list(TRK_MOD)
        if m == "change_state_block":
            req.append(("tracker-protocol:blocked-towards-a-service-node", "1 <= destination.id_number and destination.id_number <= nnodes()"))
        if m in ("change_state_release", "change_state_renege"):
            req.append(("tracker-protocol:a-blocked-customer-leaves-towards-a-service-node",
                        "implies(blocked, is_obj(destination, 'Node') and 1 <= destination.id_number and destination.id_number <= nnodes())"))
        # ghost protocol of the per-class counts (C17): counted_class(ind) is the class the tracker counts ind under
        if m == "change_state_accept":
            mod.append("counted_class@ind")
            ens.append(("C17:counted-under-its-current-class", "counted_class(ind) == ind.customer_class"))
        if m in ("change_state_classchange", "change_state_release", "change_state_renege"):
            req.append(("C17:tracker-protocol-previous_class-is-the-class-the-customer-is-counted-under",
                        "counted_class(ind) == ind.previous_class"))
            mod.append("counted_class@ind")
            ens.append(("C17:counted-under-its-current-class", "counted_class(ind) == ind.customer_class") if m == "change_state_classchange"
                       else ("C17:no-longer-counted", "counted_class(ind) is None"))
        add(spec, "StateTracker." + m, types=params, modifies=mod, assumed=True, allocates=True, requires=req, ensures=ens,
            note="a tracker writes only its own state; the requires are the protocol every built-in tracker relies on "
                 "(proved at each call site in node.py, assumed by the per-tracker units of C17)")
    add(spec, "StateTracker.timestamp", modifies=TRK_MOD, assumed=True, allocates=True,
        note="verified per tracker in the C17 units")
    add(spec, "StateTracker.hash_state", returns="val", modifies=[], assumed=True, pure=True,
        note="hash_state() is a function of the tracker state only (a tuple copy of it)")
    for m, params in [("action_at_attach_server", {"node": "obj:Node", "server": "obj:Server", "individual": "obj:Individual"}),
                      ("action_at_blockage", {"individual": "obj:Individual", "next_node": "obj:Node"}),
                      ("action_at_detatch_server", {"server": "obj:Server"}),
                      ("initialise_at_node", {"node": "obj:Node"})]:
        add(spec, "NoDetection." + m, types=params, modifies=[], assumed=True, allocates=True,
            note="a deadlock detector writes only its own digraph (an external networkx object)")
    add(spec, "NoDetection.detect_deadlock", returns="bool", modifies=[], assumed=True, allocates=True)

    # routers: NetworkRouting.next_node* are verified in contracts/c_routing.py; node routers supplied by the user are
    # covered by the class-level contract NodeRouting.next_node there
    add(spec, "NetworkRouting.initialise_individual", types={"ind": "obj:Individual"}, modifies=["route@ind"],
        allocates=True, assumed=True)

    # distributions: sample() may return anything (user code); _sample() is verified to validate it
    add(spec, "Distribution.sample", returns="val", modifies=[], assumed=True,
        note="a distribution's sample() writes nothing in the simulation; its result is NOT assumed valid")
