"""Class-level contracts for dynamically dispatched collaborators.  They are ASSUMED at call sites in
node.py (listed in trusted_base) and -- for the repo's own trackers / routers / detectors -- each
concrete method is verified against the same frame in the units of C09 / C17 / C18."""
from . import add

TRK_MOD = ["state", "increment", "$seq[TrackerState]", "$seq[TrackerRow]", "$seq[TrackerCell]", "$seq[TrackerOrder]",
           "$seq[History]", "$seq[HistEntry]"]
NODE_OR_EXIT = "obj:Node|ExitNode"


def declare(spec):
    for m, params in [("change_state_accept", {"node": "obj:Node", "ind": "obj:Individual"}),
                      ("change_state_block", {"node": "obj:Node", "destination": "obj:Node", "ind": "obj:Individual"}),
                      ("change_state_release", {"node": "obj:Node", "destination": NODE_OR_EXIT, "ind": "obj:Individual", "blocked": "bool"}),
                      ("change_state_renege", {"node": "obj:Node", "destination": NODE_OR_EXIT, "ind": "obj:Individual", "blocked": "bool"}),
                      ("change_state_classchange", {"node": "obj:Node", "ind": "obj:Individual"})]:
        add(spec, "StateTracker." + m, types=params, modifies=TRK_MOD, assumed=True, allocates=True,
            note="a tracker writes only its own state")
    add(spec, "StateTracker.timestamp", modifies=TRK_MOD, assumed=True, allocates=True,
        note="verified per tracker in the C17 units")
    add(spec, "StateTracker.hash_state", returns="val", modifies=[], assumed=True, allocates=True)
    for m, params in [("action_at_attach_server", {"node": "obj:Node", "server": "obj:Server", "individual": "obj:Individual"}),
                      ("action_at_blockage", {"individual": "obj:Individual", "next_node": "obj:Node"}),
                      ("action_at_detatch_server", {"server": "obj:Server"}),
                      ("initialise_at_node", {"node": "obj:Node"})]:
        add(spec, "NoDetection." + m, types=params, modifies=[], assumed=True, allocates=True,
            note="a deadlock detector writes only its own digraph (an external networkx object)")
    add(spec, "NoDetection.detect_deadlock", returns="bool", modifies=[], assumed=True, allocates=True)

    # routers: return a service node of this simulation or the exit node; may consume the customer's route
    for m in ["next_node", "next_node_for_rerouting", "next_node_for_jockeying"]:
        add(spec, "NetworkRouting." + m,
            types={"ind": "obj:Individual", "node_id": "int"},
            returns=NODE_OR_EXIT, modifies=["$seq[Route]", "route@ind"], allocates=True, assumed=True,
            ensures=[("router-result-is-a-node-of-this-simulation", "result in self.simulation.nodes")])
    add(spec, "NetworkRouting.initialise_individual", types={"ind": "obj:Individual"}, modifies=["route@ind"],
        allocates=True, assumed=True)

    # distributions: sample() may return anything (user code); _sample() is verified to validate it
    add(spec, "Distribution.sample", returns="val", modifies=[], assumed=True,
        note="a distribution's sample() writes nothing in the simulation; its result is NOT assumed valid")
