"""Property -> units whose obligations decide it.  A unit is (qualified function name, receiver class or None).
Obligations whose label carries a property tag (`C07:...`, `C02+C10:...`) count only for those properties;
untagged obligations of a unit (definedness, types, frames, pre-call, loop obligations) count for every property
that lists the unit."""


def U(q, rc=None):
    return (q, rc)


NEXT_EVENT = [U("Node.decide_next_event"), U("Node.update_next_end_service_with_server"),
              U("Node.update_next_end_service_without_server"), U("Node.update_next_renege_time"),
              U("Node.update_next_event_date")]
START = [U("Node.begin_service_if_possible_accept"), U("Node.begin_service_if_possible_release"),
         U("Node.begin_interrupted_individuals_service")]
TRANSFER = [U("Node.accept"), U("Node.release"), U("Node.renege"), U("Node.release_blocked_individual"),
            U("Node.finish_service"), U("ExitNode.accept")]
KERNELS = [U("FIFO"), U("LIFO"), U("SIRO"), U("random_choice"), U("flatten_list"), U("Distribution._sample"),
           U("Node.find_free_server"), U("Node.choose_next_customer"), U("Node.all_individuals"),
           U("Simulation.find_next_active_node"), U("ArrivalNode.find_next_event_date"), U("Node.block_individual"),
           U("Node.change_customer_class"), U("Node.find_next_class_change"), U("Node.decide_class_change")]

PROPS = {
    "C01": dict(units=TRANSFER),
    "C02": dict(units=[U("Simulation.find_next_active_node"), U("ArrivalNode.find_next_event_date")] + NEXT_EVENT + START +
                [U("Node.release"), U("Node.renege"), U("Node.decide_class_change")]),
    "C03": dict(units=[U("Node.release"), U("Node.renege"), U("Node.finish_service"), U("Node.accept")]),
    "C04": dict(units=[U("Node.find_free_server"), U("Node.release")] + START),
    "C05": dict(units=[U("Node.find_free_server"), U("Node.choose_next_customer"), U("Node.accept"),
                       U("Node.begin_service_if_possible_accept"), U("Node.begin_service_if_possible_release")]),
    "C06": dict(units=[U("Node.release"), U("Node.finish_service"), U("Node.accept"), U("Node.release_blocked_individual")]),
    "C07": dict(units=[U("Node.block_individual"), U("Node.finish_service"), U("Node.release"), U("Node.release_blocked_individual"),
                       U("Node.accept"), U("Node.update_next_end_service_with_server"),
                       U("Node.update_next_end_service_without_server"), U("Node.begin_interrupted_individuals_service")]),
    "C08": dict(units=[U("FIFO"), U("LIFO"), U("SIRO"), U("Node.choose_next_customer"), U("Node.begin_service_if_possible_release")]),
    "C09": dict(units=[U("random_choice"), U("Node.change_customer_class"), U("Node.find_next_class_change"),
                       U("Node.decide_class_change"), U("Node.release"), U("Node.renege"), U("Node.finish_service")]),
    "C10": dict(units=[U("Distribution._sample"), U("ArrivalNode.find_next_event_date"), U("Node.decide_class_change")] + START),
    "C11": dict(units=[U("Node.begin_interrupted_individuals_service")]),
    "C12": dict(units=[U("Node.decide_next_event"), U("Node.update_next_end_service_without_server"), U("Node.update_next_event_date"),
                       U("Node.begin_interrupted_individuals_service"), U("Node.begin_service_if_possible_release"),
                       U("Node.release_blocked_individual")]),
    "C13": dict(units=[U("Node.decide_next_event"), U("Node.update_next_renege_time"), U("Node.update_next_event_date"),
                       U("Node.renege"), U("Node.begin_service_if_possible_accept"), U("Node.accept")]),
    "C14": dict(units=KERNELS + NEXT_EVENT + START + TRANSFER),
    "C16": dict(units=[U("Simulation.find_next_active_node")]),
    "C17": dict(units=[U("Node.block_individual"), U("Node.change_customer_class"), U("Node.accept"), U("Node.release"), U("Node.renege")]),
    "C18": dict(units=[U("Node.block_individual")]),
}
