"""Property -> units whose obligations decide it.  A unit is (qualified function name, receiver class or None).
Obligations whose label carries a property tag (`C07:...`, `C02+C10:...`) count only for those properties;
untagged obligations of a unit (definedness, types, frames, pre-call, loop obligations) count for every property
that lists the unit."""


def U(q, rc=None):
    return (q, rc)


NEXT_EVENT = [U("Node.decide_next_event"), U("Node.update_next_end_service_with_server"),
              U("Node.update_next_end_service_without_server"), U("Node.update_next_renege_time"),
              U("Node.update_next_event_date")]
START = [U("Node.begin_service_if_possible_accept"), U("Node.begin_service_if_possible_release"),
         U("Node.begin_interrupted_individuals_service")]
TRANSFER = [U("Node.accept"), U("Node.release"), U("Node.renege"), U("Node.release_blocked_individual"),
            U("Node.finish_service"), U("ExitNode.accept")]
KERNELS = [U("FIFO"), U("LIFO"), U("SIRO"), U("random_choice"), U("flatten_list"), U("Distribution._sample"),
           U("Node.find_free_server"), U("Node.choose_next_customer"), U("Node.all_individuals"),
           U("Simulation.find_next_active_node"), U("ArrivalNode.find_next_event_date"), U("Node.block_individual"),
           U("Node.change_customer_class"), U("Node.find_next_class_change"), U("Node.decide_class_change")]

ARRIVAL = [U("ArrivalNode.have_event"), U("ArrivalNode.release_individual"), U("ArrivalNode.decide_baulk"),
           U("ArrivalNode.send_individual"), U("ArrivalNode.batch_size"), U("ArrivalNode.inter_arrival")]
LOOPS = [U("Simulation.event_and_return_nextnode"), U("Simulation.simulate_until_max_time"),
         U("Simulation.simulate_until_max_customers"), U("Simulation.wrap_up_servers")]
STATS = [U("Node.wrap_up_servers"), U("Node.find_server_utilisation")]

TRACKERS = [U("SystemPopulation.change_state_accept"), U("SystemPopulation.change_state_release"), U("SystemPopulation.change_state_block"),
            U("NodePopulation.change_state_accept"), U("NodePopulation.change_state_release"),
            U("NodePopulationSubset.change_state_accept"), U("NodePopulationSubset.change_state_release"),
            U("GroupedNodePopulation.change_state_accept"), U("GroupedNodePopulation.change_state_release"),
            U("NodeClassMatrix.change_state_accept"), U("NodeClassMatrix.change_state_release"), U("NodeClassMatrix.change_state_classchange"),
            U("NaiveBlocking.change_state_accept"), U("NaiveBlocking.change_state_block"), U("NaiveBlocking.change_state_release"),
            U("MatrixBlocking.change_state_accept"), U("MatrixBlocking.change_state_block"), U("StateTracker.timestamp"),
            U("SystemPopulation.initialise"), U("NodePopulation.initialise"), U("NaiveBlocking.initialise"),
            U("NodePopulationSubset.initialise"), U("GroupedNodePopulation.initialise"),
            U("NodePopulation.change_state_block"), U("NodePopulationSubset.change_state_block"),
            U("GroupedNodePopulation.change_state_block"), U("NodeClassMatrix.change_state_block")] + [
            U("StateTracker.change_state_renege", rc) for rc in ["SystemPopulation", "NodePopulation", "NodePopulationSubset",
                                                                  "GroupedNodePopulation", "NodeClassMatrix", "NaiveBlocking"]]

ROUTERS = [U("Direct.next_node"), U("Leave.next_node"), U("Probabilistic.next_node"), U("Cycle.next_node"),
           U("JoinShortestQueue.next_node"), U("JoinShortestQueue.next_node", "LoadBalancing"), U("ProcessBased.next_node"),
           U("ProcessBased.next_node_for_rerouting"), U("ProcessBased.next_node_for_jockeying"),
           U("NetworkRouting.next_node"), U("NetworkRouting.next_node_for_rerouting"), U("NetworkRouting.next_node_for_jockeying"),
           U("NetworkRouting.next_node", "TransitionMatrix"), U("NodeRouting.next_node_for_jockeying")] + \
          [U("NodeRouting.next_node_for_rerouting", rc) for rc in ["Probabilistic", "Direct", "Leave", "JoinShortestQueue", "LoadBalancing", "Cycle"]]

SCHEDULES = [U("Schedule.get_schedule_generator"), U("Schedule.initialise"), U("Schedule.get_next_shift"),
             U("Slotted.get_next_slot"), U("Slotted.initialise"), U("Node.kill_server"), U("Node.add_new_servers"),
             U("Node.take_servers_off_duty"), U("Node.begin_service_if_possible_change_shift"), U("Node.change_shift", "Node"),
             U("Node.interrupt_service"), U("Node.slotted_service", "Node"),
             U("Slotted.__init__"), U("Schedule.__init__")]
EXACT = [U("ExactNode.get_service_time"), U("ExactArrivalNode.inter_arrival"), U("ExactNode.increment_time"), U("ExactArrivalNode.increment_time")]

PROPS = {
    "C01": dict(units=TRANSFER + ARRIVAL[:4]),
    "C02": dict(units=[U("Simulation.find_next_active_node"), U("ArrivalNode.find_next_event_date"), U("Node.begin_service_if_possible_change_shift"),
                       U("Node.interrupt_service"), U("Node.preempt")] + NEXT_EVENT + START +
                [U("Node.release"), U("Node.renege"), U("Node.decide_class_change")] + LOOPS[:3]),
    "C03": dict(units=[U("Node.release"), U("Node.renege"), U("Node.finish_service"), U("Node.accept"), U("ArrivalNode.have_event"),
                       U("Node.begin_interrupted_individuals_service")]),
    "C04": dict(units=[U("Node.find_free_server"), U("Node.release"), U("Node.kill_server"), U("Node.add_new_servers"), U("Node.preempt"),
                       U("Node.release_blocked_individual")] + START + STATS),
    "C05": dict(units=[U("Node.find_free_server"), U("Node.choose_next_customer"), U("Node.accept"), U("Node.release_blocked_individual"),
                       U("Node.begin_service_if_possible_change_shift"), U("Node.change_shift", "Node"),
                       U("Node.begin_service_if_possible_accept"), U("Node.begin_service_if_possible_release")]),
    "C06": dict(units=[U("Node.release"), U("Node.finish_service"), U("Node.accept"), U("Node.release_blocked_individual"),
                       U("ArrivalNode.release_individual")]),
    "C07": dict(units=[U("Node.begin_service_if_possible_change_shift"), U("Node.block_individual"), U("Node.finish_service"), U("Node.release"), U("Node.release_blocked_individual"),
                       U("Node.accept"), U("Node.update_next_end_service_with_server"),
                       U("Node.update_next_end_service_without_server"), U("Node.begin_interrupted_individuals_service")]),
    "C08": dict(units=[U("FIFO"), U("LIFO"), U("SIRO"), U("Node.choose_next_customer"), U("Node.begin_service_if_possible_release"), U("Node.preempt")]),
    "C09": dict(units=[U("random_choice"), U("Node.change_customer_class"), U("Node.find_next_class_change"),
                       U("Node.decide_class_change"), U("Node.release"), U("Node.renege"), U("Node.finish_service"),
                       U("ArrivalNode.have_event"), U("Node.change_customer_class_while_waiting"), U("Node.begin_interrupted_individuals_service")] + ROUTERS),
    "C10": dict(units=[U("Distribution._sample"), U("ArrivalNode.find_next_event_date"), U("Node.decide_class_change"),
                       U("ArrivalNode.have_event"), U("ArrivalNode.batch_size"), U("ArrivalNode.inter_arrival"), U("Node.renege"), U("Node.release"), U("Node.accept")] + START + EXACT[:2]),
    "C11": dict(units=[U("Node.begin_interrupted_individuals_service"), U("Node.decide_preempt"), U("Node.preempt"), U("Node.change_customer_class_while_waiting"),
                       U("Node.interrupt_service"),
                       U("Node.begin_service_if_possible_accept"), U("Node.begin_service_if_possible_release")]),
    "C12": dict(units=SCHEDULES + [U("Node.decide_preempt"), U("Node.decide_next_event"), U("Node.update_next_end_service_without_server"), U("Node.update_next_event_date"),
                       U("Node.begin_interrupted_individuals_service"), U("Node.begin_service_if_possible_release"),
                       U("Node.release_blocked_individual")]),
    "C13": dict(units=[U("Node.preempt"), U("NodeRouting.next_node_for_jockeying"), U("ProcessBased.next_node_for_jockeying"), U("NetworkRouting.next_node_for_jockeying"),
                       U("Node.decide_next_event"), U("Node.update_next_renege_time"), U("Node.update_next_event_date"),
                       U("Node.renege"), U("Node.begin_service_if_possible_accept"), U("Node.accept"), U("ArrivalNode.decide_baulk")]),
    "C14": dict(units=KERNELS + NEXT_EVENT + START + TRANSFER + ARRIVAL + LOOPS + STATS + [U("StateTracker.timestamp"), U("Node.preempt"), U("Node.decide_preempt"), U("Node.change_customer_class_while_waiting"), U("Node.__init__")] + EXACT + SCHEDULES),
    "C16": dict(units=[U("Simulation.find_next_active_node")]),
    "C17": dict(units=[U("Node.block_individual"), U("Node.change_customer_class"), U("Node.accept"), U("Node.release"), U("Node.renege"),
                       U("Node.finish_service"), U("Node.release_blocked_individual"), U("Node.change_customer_class_while_waiting")] + TRACKERS + LOOPS[:3]),
    "C18": dict(units=[U("Node.block_individual")]),
}
