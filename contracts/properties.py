"""Property -> units whose obligations decide it.  A unit is (qualified function name, receiver class or None).
Obligations whose label carries a property tag (`C07:...`, `C02+C10:...`) count only for those properties;
untagged obligations of a unit (definedness, types, frames, pre-call, loop obligations) count for every property
that lists the unit."""

U = lambda q, rc=None: (q, rc)

KERNEL_NEXT_EVENT = [U("Node.decide_next_event"), U("Node.update_next_end_service_with_server"),
                     U("Node.update_next_end_service_without_server")]

PROPS = {
    "C01": dict(units=[U("ExitNode.accept"), U("Node.accept")]),
    "C02": dict(units=[U("Simulation.find_next_active_node"), U("ArrivalNode.find_next_event_date")] + KERNEL_NEXT_EVENT),
    "C04": dict(units=[U("Node.find_free_server")]),
    "C05": dict(units=[U("Node.find_free_server"), U("Node.choose_next_customer")]),
    "C07": dict(units=[U("Node.block_individual"), U("Node.update_next_end_service_with_server"),
                       U("Node.update_next_end_service_without_server")]),
    "C08": dict(units=[U("FIFO"), U("LIFO"), U("SIRO"), U("Node.choose_next_customer")]),
    "C09": dict(units=[U("random_choice"), U("Node.change_customer_class"), U("Node.find_next_class_change")]),
    "C10": dict(units=[U("Distribution._sample"), U("ArrivalNode.find_next_event_date")]),
    "C12": dict(units=[U("Node.decide_next_event"), U("Node.update_next_end_service_without_server")]),
    "C13": dict(units=[U("Node.decide_next_event")]),
    "C14": dict(units=[U("Simulation.find_next_active_node"), U("Node.find_next_class_change"), U("Node.all_individuals"),
                       U("flatten_list"), U("ExitNode.accept")] + KERNEL_NEXT_EVENT),
    "C16": dict(units=[U("Simulation.find_next_active_node")]),
    "C17": dict(units=[U("Node.block_individual"), U("Node.change_customer_class")]),
    "C18": dict(units=[U("Node.block_individual")]),
}
