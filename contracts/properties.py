"""Property -> units whose obligations decide it.  A unit is (qualified function name, receiver class or None)."""

PROPS = {
    "C08": dict(units=[("FIFO", None), ("LIFO", None), ("SIRO", None), ("Node.choose_next_customer", None)]),
    "C09": dict(units=[("random_choice", None)]),
}
