"""Contracts for ciw/dists/distributions.py (validity check of samples)."""
from . import add


def declare(spec):
    add(spec, "Distribution._sample",
        returns="fnum", modifies=[],
        ensures=[("C10:validated-sample-is-a-non-negative-number", "result >= 0")],
        raises=[("ValueError", "True")],
        props=["C10"])
