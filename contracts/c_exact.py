"""Contracts for ciw/exactnode.py (C20 / C10): exact-mode overrides return Decimals and go through the same validation."""
from . import add
from .c_node import INV

IND = "obj:Individual"


def declare(spec):
    add(spec, "ExactNode.get_service_time", types={"ind": IND},
        requires=[INV("net_ok(self)"), "cls_ok(self, ind)"],
        returns="val", modifies=[], allocates=True, raises=[("ValueError", "True")],
        ensures=[("C10+C20:an-exact-mode-service-time-is-a-validated-sample-as-a-decimal", "is_dec(result) and result >= 0")],
        expect_calls={"_sample": 1}, props=["C10", "C20"])
    add(spec, "ExactArrivalNode.inter_arrival", types={"nd": "int", "clss": "str"},
        requires=["nd in self.simulation.inter_arrival_times and clss in self.simulation.inter_arrival_times[nd] "
                  "and self.simulation.inter_arrival_times[nd][clss] is not None"],
        returns="val", modifies=[], allocates=True, raises=[("ValueError", "True")],
        ensures=[("C10+C20:an-exact-mode-inter-arrival-time-is-a-validated-sample-as-a-decimal", "is_dec(result) and result >= 0")],
        expect_calls={"_sample": 1}, props=["C10", "C20"])
    for cls in ["ExactNode", "ExactArrivalNode"]:
        add(spec, cls + ".increment_time", types={"original": "time", "increment": "time"},
            requires=["is_fin(original) and is_fin(increment)"], returns="val", modifies=[], allocates=True,
            ensures=[("C20:dates-are-decimals-and-sums-of-decimals-are-exact",
                      "is_dec(result) and implies((is_dec(original) or is_int(original)) and (is_dec(increment) or is_int(increment)), "
                      "real(result) == real(original) + real(increment))")],
            props=["C20"])
