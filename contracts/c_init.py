"""Contracts for constructors: a freshly built node satisfies the structural invariants that every event handler
assumes (`INV(...)`), so those assumptions have a base case (C14)."""
from . import add
from .c_node import INV


def declare(spec):
    add(spec, "Node.__init__", types={"id_": "int", "simulation": "obj:Simulation"},
        requires=["1 <= id_ and id_ <= nnodes()", "simulation.number_of_priority_classes >= 1",
                  "len(simulation.network.service_centres) == nnodes()"],
        modifies=["*"], allocates="any", raises=[("ValueError", "True")],
        ensures=[
            ("C14:structural-invariants-hold-for-a-new-node",
             "shape(self) and has_servers(self) and self.id_number == id_ and ref_eq(self.simulation, simulation)"),
            ("C14:bookkeeping-attributes-of-dynamic-classes-exist", "dyn_ok(self)"),
            ("C01:a-new-node-is-empty",
             "self.number_of_individuals == 0 and self.number_in_service == 0 and forall_in(self.individuals, lambda q: len(q) == 0)"),
            ("C07:nobody-is-blocked-towards-a-new-node", "len(self.blocked_queue) == 0 and self.len_blocked_queue == 0"),
            ("C12:nobody-is-interrupted-at-a-new-node", "len(self.interrupted_individuals) == 0 and self.number_interrupted_individuals == 0"),
            ("C12:slotted-nodes-have-no-servers", "implies(self.slotted, self.c == 0)"),
        ],
        props=["C14", "C01", "C07", "C12"])
