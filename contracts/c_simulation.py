"""Contracts for ciw/simulation.py."""
from . import add


def declare(spec):
    add(spec, "Simulation.find_next_active_node",
        requires=["len(self.active_nodes) > 0"],
        returns="obj:ArrivalNode|Node", modifies=[], allocates=True,
        ensures=[
            ("C02:an-active-node", "result in self.active_nodes"),
            ("C02:earliest-next-event", "forall_in(self.active_nodes, lambda n: result.next_event_date <= n.next_event_date)"),
        ],
        loop_invariants={0: [
            "is_number(mindate)",
            "forall_int(lambda j: implies(0 <= j and j < _i, mindate <= _it[j].next_event_date), trigger=lambda j: _it[j])",
            "forall_in(next_active_nodes, lambda x: x in self.active_nodes and x.next_event_date == mindate)",
            "implies(_i > 0, len(next_active_nodes) > 0)",
            "implies(_i == 0, is_pinf(mindate))",
        ]},
        props=["C02", "C14", "C16"])
