"""Contracts for ciw/simulation.py."""
from . import add


def declare(spec):
    add(spec, "Simulation.find_next_active_node",
        requires=["len(self.active_nodes) > 0"],
        returns="obj:ArrivalNode|Node", modifies=[], allocates=True,
        ensures=[
            ("C02:an-active-node", "result in self.active_nodes"),
            ("C02:earliest-next-event", "forall_in(self.active_nodes, lambda n: result.next_event_date <= n.next_event_date)"),
        ],
        loop_invariants={0: [
            "is_number(mindate)",
            "forall_int(lambda j: implies(0 <= j and j < _i, mindate <= _it[j].next_event_date), trigger=lambda j: _it[j])",
            "forall_in(next_active_nodes, lambda x: x in self.active_nodes and x.next_event_date == mindate)",
            "implies(_i > 0, len(next_active_nodes) > 0)",
            "implies(_i == 0, is_pinf(mindate))",
        ]},
        props=["C02", "C14", "C16"])


def declare_loops(spec):
    from .c_node import INV
    add(spec, "Simulation.wrap_up_servers",
        types={"current_time": "time"},
        requires=["is_fin(current_time)"],
        modifies=["total_time", "busy_time", "server_utilisation", "$seq[NumList]"], allocates=True,
        loop_invariants={0: []},
        props=["C04", "C14", "C16"])

    add(spec, "Simulation.event_and_return_nextnode",
        types={"next_active_node": "obj:ArrivalNode|Node"},
        requires=["len(self.active_nodes) > 0"],
        returns="obj:ArrivalNode|Node", modifies=["*"], allocates="any", raises=[("ValueError", "True")],
        # SCHED / EVENT_PRE: what the previous update_next_event_date round guarantees to the handler (ASSUMED)
        call_assumes={
            "finish_service": ["is_fin(self.next_event_date) or is_pinf(self.next_event_date)",
                               "is_list(self.next_individual) and len(as_list(self.next_individual, 'Any')) > 0 and "
                               "forall_in(as_list(self.next_individual, 'Any'), lambda x: finish_cand_ok(self, x))"],
            "renege": ["is_list(self.next_individual) and len(as_list(self.next_individual, 'Any')) > 0 and "
                       "forall_in(as_list(self.next_individual, 'Any'), lambda x: renege_cand_ok(self, x))"],
            "change_customer_class_while_waiting": ["self.dynamic_classes is True", "not isinf(self.c) and has(self, 'servers')",
                                                    "cc_cand_ok(self, self.next_individual)"],
            "have_event": ["arr_ok(self)", "self.simulation.inter_arrival_times[self.next_node][self.next_class] is not None",
                           "is_time(self.event_dates_dict[self.next_node][self.next_class]) and (is_fin(self.event_dates_dict[self.next_node][self.next_class]) "
                           "or is_pinf(self.event_dates_dict[self.next_node][self.next_class]))"],
        },
        ensures=[
            ("C02:the-next-active-node-has-the-earliest-next-event",
             "result in self.active_nodes and forall_in(self.active_nodes, lambda n: result.next_event_date <= n.next_event_date)"),
            ("C02:the-clock-is-not-touched-by-an-event", "ref_eq(self.current_time, old(self.current_time))"),
            ("C14:the-set-of-nodes-is-fixed", "ref_eq(self.active_nodes, old(self.active_nodes)) and S(self.active_nodes) == old(S(self.active_nodes))"),
        ],
        loop_invariants={0: ["ref_eq(self.current_time, old(self.current_time))", "ref_eq(self.active_nodes, old(self.active_nodes))",
                             "S(self.active_nodes) == old(S(self.active_nodes))", "len(self.active_nodes) > 0"]},
        expect_calls={"find_next_active_node": 1},
        props=["C02", "C14"])

    add(spec, "Simulation.simulate_until_max_time",
        types={"max_simulation_time": "time", "progress_bar": "bool"},
        requires=["progress_bar is False", "len(self.active_nodes) > 0", "is_fin(max_simulation_time)",
                  "is_fin(self.current_time)"],
        modifies=["*"], allocates="any", raises=[("ValueError", "True")],
        # I-IND / SCHED consequence (ASSUMED): after an event no node has an event scheduled before the clock
        lemma_after={"event_and_return_nextnode": [
            "forall_in(self.active_nodes, lambda n: n.next_event_date >= self.current_time)",
            "is_fin(result.next_event_date) or is_pinf(result.next_event_date)"],
            "find_next_active_node": ["is_fin(result.next_event_date) or is_pinf(result.next_event_date)"]},
        at_call={"event_and_return_nextnode": [
            ("C02:every-event-is-executed-exactly-at-its-scheduled-date", "self.current_time == next_active_node.next_event_date"),
            ("C14:only-events-scheduled-strictly-before-the-horizon-are-executed", "self.current_time < max_simulation_time"),
            ("C02:the-event-executed-is-the-earliest-scheduled-one",
             "next_active_node in self.active_nodes and forall_in(self.active_nodes, lambda n: next_active_node.next_event_date <= n.next_event_date)"),
        ], "wrap_up_servers": [
            ("C14:no-event-at-or-after-the-horizon-was-executed-and-none-before-it-is-pending",
             "self.current_time >= max_simulation_time and forall_in(self.active_nodes, lambda n: n.next_event_date >= max_simulation_time)"),
        ], "timestamp": [
            ("C02:the-clock-never-goes-back", "next_active_node.next_event_date >= self.current_time"),
        ]},
        loop_invariants={0: [
            "len(self.active_nodes) > 0", "next_active_node in self.active_nodes",
            "forall_in(self.active_nodes, lambda n: next_active_node.next_event_date <= n.next_event_date)",
            "self.current_time == next_active_node.next_event_date",
            "is_fin(self.current_time) or is_pinf(self.current_time)",
        ]},
        expect_calls={"wrap_up_servers": 1},
        props=["C02", "C14", "C16", "C17"])


    add(spec, "Simulation.simulate_until_max_customers",
        types={"max_customers": "int", "progress_bar": "bool", "method": "str"},
        requires=["progress_bar is False", "len(self.active_nodes) > 0", "is_fin(self.current_time)",
                  "len(self.nodes) >= 2", INV("cls_is(self.nodes[0], 'ArrivalNode|ExactArrivalNode') and cls_is(self.nodes[len(self.nodes) - 1], 'ExitNode')")],
        modifies=["*"], allocates="any",
        raises=[("ValueError", "True")],
        lemma_after={"event_and_return_nextnode": [
            "forall_in(self.active_nodes, lambda n: n.next_event_date >= self.current_time)",
            "is_fin(result.next_event_date)", "len(self.nodes) >= 2 and cls_is(self.nodes[0], 'ArrivalNode|ExactArrivalNode') and cls_is(self.nodes[len(self.nodes) - 1], 'ExitNode')"],
            "find_next_active_node": ["is_fin(result.next_event_date)"]},
        at_call={"event_and_return_nextnode": [
            ("C02:every-event-is-executed-exactly-at-its-scheduled-date", "self.current_time == next_active_node.next_event_date"),
            ("C14:an-event-is-executed-only-while-the-count-is-below-the-target",
             "implies(method == 'Complete', self.nodes[len(self.nodes) - 1].number_of_completed_individuals < max_customers) and "
             "implies(method == 'Finish', self.nodes[len(self.nodes) - 1].number_of_individuals < max_customers) and "
             "implies(method == 'Arrive', self.nodes[0].number_of_individuals < max_customers) and "
             "implies(method == 'Accept', self.nodes[0].number_accepted_individuals < max_customers)"),
        ], "wrap_up_servers": [
            ("C14:stops-once-the-count-has-reached-the-target",
             "implies(method == 'Complete', self.nodes[len(self.nodes) - 1].number_of_completed_individuals >= max_customers) and "
             "implies(method == 'Finish', self.nodes[len(self.nodes) - 1].number_of_individuals >= max_customers) and "
             "implies(method == 'Arrive', self.nodes[0].number_of_individuals >= max_customers) and "
             "implies(method == 'Accept', self.nodes[0].number_accepted_individuals >= max_customers)"),
            ("C14:method-is-one-of-the-four", "method == 'Complete' or method == 'Finish' or method == 'Arrive' or method == 'Accept'"),
        ], "timestamp": [
            ("C02:the-clock-never-goes-back", "next_active_node.next_event_date >= self.current_time"),
        ]},
        loop_invariants={0: [
            "len(self.active_nodes) > 0", "next_active_node in self.active_nodes",
            "self.current_time == next_active_node.next_event_date", "is_fin(self.current_time)", "is_time(previous_time) and is_fin(previous_time)",
            "len(self.nodes) >= 2 and cls_is(self.nodes[0], 'ArrivalNode|ExactArrivalNode') and cls_is(self.nodes[len(self.nodes) - 1], 'ExitNode')",
        ]},
        expect_calls={"wrap_up_servers": 1},
        props=["C02", "C14"])
