"""Texts for MANIFEST.json (level claimed per property, what is assumed, what is not applicable)."""

GENERAL = ("Every check re-reads /repo/ciw, regenerates all verification conditions of the functions listed for the property and "
           "discharges them; exit 0 only if every obligation is discharged. A property's check covers the functions named in its "
           "level text: mechanisms of the property that are not yet under contract are named in level_note and are NOT claimed.")

DEFAULT_NOTE = ("Trusted: the pyvc encoding of Python semantics (floats as reals, exact Decimals, no termination proof), z3/cvc5, the "
                "assumed class-level contracts of dynamically dispatched collaborators (trackers, routers, deadlock detector, "
                "Distribution.sample) and the network-configuration invariants (net_ok) assumed as preconditions; each evidence "
                "file lists them in trusted_base / assumptions. Preconditions of the top-level functions under contract are assumed, "
                "not yet derived from an inductive invariant of the event loop.")

NOTES = {
    "C01": dict(text="Proved per transfer function (accept, release, renege, release_blocked_individual, finish_service, ExitNode.accept): a customer is appended to exactly one line only while it is nowhere (ghost location map), removed exactly once before it is handed on, each transfer calls the destination's accept exactly once, and the population counters move with the lists (checkpoints proved at the hand-over call)."),
    "C03": dict(text="Proved: the service / renege record is written exactly once per departure, before the hand-over, names this node, the destination fixed by finish_service (renege: the jockeying destination, fix D14) and exit_date = now; rerouted customers get no service record."),
    "C06": dict(text="Proved: release may only be called when the destination has room (or is the exit, or on the documented reroute path) -- an obligation at every call site -- and finish_service / release_blocked_individual test exactly that before calling it; accept records the population seen."),
    "C11": dict(text="Proved (restart half): an interrupted customer restarted by begin_interrupted_individuals_service gets time_left under 'resume' and its original service time under 'restart', non-negative, starting now on the freed server."),
    "C02": dict(text="Proved for all inputs: the next active node has the minimal next_event_date; the arrival node's next event is the minimal stream date; a node's next event is the earliest candidate (tie order as documented) and end-of-service candidates are unblocked customers with a real end date >= now."),
    "C04": dict(text="Proved: find_free_server returns a non-busy member of the node's servers, or None exactly when all are busy."),
    "C05": dict(text="Proved: find_free_server finds a free server whenever one exists; choose_next_customer returns None exactly when nobody waits."),
    "C07": dict(text="Proved: block_individual queues (node, customer) at the tail of the destination's blocked queue and may only be called when the destination is full; blocked / idle servers are never candidates for a service completion."),
    "C08": dict(text="Proved for all queue contents: the chosen customer is waiting, belongs to the first priority line with a waiting customer, and is the head / tail / a member under FIFO / LIFO / SIRO."),
    "C09": dict(text="Proved: random_choice never returns an entry of probability zero (after fix D8); after-service class changes of probability zero never happen and the priority follows the new class; the next class change while waiting is the earliest one among waiting customers."),
    "C10": dict(text="Proved: Distribution._sample returns a non-negative number or raises; the next arrival is the stream with the minimal date."),
    "C12": dict(text="Proved: tie order slotted service > shift change > end of service > class change > renege; at slotted / infinite-server nodes only customers actually in service are candidates for a service completion (fix D3)."),
    "C13": dict(text="Proved: the renege event loses every tie against the other event types (decide_next_event)."),
    "C14": dict(text="Proved: every definedness obligation (attribute exists, index in range, key present, operands compatible, list.remove / index on a member) of the listed functions, for all states satisfying their stated preconditions."),
    "C16": dict(text="Proved: find_next_active_node writes nothing (re-entry of the loop prologue changes no state)."),
    "C17": dict(text="Proved: block_individual and change_customer_class call the tracker exactly once per transition and keep the class bookkeeping the trackers read (previous_class / prev_priority_class)."),
    "C18": dict(text="Proved: every blockage sets unchecked_blockage and is reported to the detector exactly once."),
}

NOT_APPLICABLE = {
    "C15": "two-run relational property; the ownership / frame analysis of Simulation.__init__ it reduces to is not built yet",
    "C19": "PSNode methods are not under contract yet (nonlinear real arithmetic obligations)",
    "C20": "ExactNode / ExactArrivalNode receiver-class runs are not set up yet",
}
