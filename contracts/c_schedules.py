"""Contracts for ciw/schedules.py (C12): the cyclic timetable generator and the objects that consume it."""
from . import add
from .c_node import INV


def declare(spec):
    from .typesdecl import F
    M = spec.macros
    # the k-th value of the timetable generator (k from 0): end date of shift k and the number of servers of shift k + 1
    YIELDS = ("lambda k: (offset + boundaries[k % len(boundaries)] + (k // len(boundaries)) * self.cyclelength, "
              "values[(k + 1) % len(boundaries)])")
    add(spec, "Schedule.get_schedule_generator",
        types={"boundaries": "list:NumList", "values": "list:IntList", "offset": "num"},
        requires=["len(boundaries) > 0 and len(values) == len(boundaries)", "is_fin(offset) and is_fin(self.cyclelength)",
                  "forall_in(boundaries, lambda b: is_fin(b))"],
        modifies=[], yields=YIELDS, gen_kind="Sched",
        loop_invariants={0: ["index == _yielded", "index >= 0", "num_boundaries == len(boundaries)"]},
        props=["C12"])
    spec.gen_kinds["Sched"] = "Schedule.get_schedule_generator"
    for prm in ["self", "boundaries", "values", "offset"]:
        spec.ghost["gen$Sched$" + prm] = "val"

    # ---- Schedule: the timetable consumer.  sched_ok ties next_c to the generator position:
    # after k shifts have been taken, c is the size of shift k-1... and next_c the size of shift k (cyclically)
    M["sched_cfg_ok"] = ("lambda s: len(s.shift_end_dates) > 0 and len(s.numbers_of_servers) == len(s.shift_end_dates) "
                         "and forall_in(s.shift_end_dates, lambda b: is_fin(b)) and is_fin(s.offset) and is_fin(s.cyclelength) "
                         "and forall_in(s.numbers_of_servers, lambda v: v >= 0)")
    M["sched_ok"] = ("lambda s: sched_cfg_ok(s) and gen_pos(s.schedule_generator) >= 0 "
                     "and s.next_c == s.numbers_of_servers[gen_pos(s.schedule_generator) % len(s.numbers_of_servers)] "
                     "and same_gen_args(s)")
    M["same_gen_args"] = ("lambda s: ref_eq(gen_arg(s.schedule_generator, 'self'), s) and ref_eq(gen_arg(s.schedule_generator, 'boundaries'), s.shift_end_dates) "
                          "and ref_eq(gen_arg(s.schedule_generator, 'values'), s.numbers_of_servers) and gen_arg(s.schedule_generator, 'offset') == s.offset")
    add(spec, "Schedule.initialise", requires=[INV("sched_cfg_ok(self)")],
        modifies=["c@self", "next_shift_change_date@self", "next_c@self", "schedule_generator@self"], allocates=["GEN"],
        ensures=[("C12:starts-with-no-servers-until-the-offset", "self.c == 0 and self.next_shift_change_date == self.offset"),
                 ("C12:the-first-shift-is-shift-0", "sched_ok(self) and gen_pos(self.schedule_generator) == 0")],
        props=["C12"])
    add(spec, "Schedule.get_next_shift", requires=[INV("sched_ok(self)")],
        modifies=["c@self", "next_shift_change_date@self", "next_c@self", "gen_pos@self.schedule_generator"], allocates=True,
        ensures=[
            ("C12:servers-on-duty-are-those-the-timetable-prescribes-for-this-shift",
             "self.c == self.numbers_of_servers[old(gen_pos(self.schedule_generator)) % len(self.numbers_of_servers)]"),
            ("C12:the-shift-ends-at-the-cyclic-boundary-plus-offset",
             "self.next_shift_change_date == self.offset + self.shift_end_dates[old(gen_pos(self.schedule_generator)) % len(self.shift_end_dates)] "
             "+ (old(gen_pos(self.schedule_generator)) // len(self.shift_end_dates)) * self.cyclelength"),
            ("C12:one-step-along-the-timetable", "gen_pos(self.schedule_generator) == old(gen_pos(self.schedule_generator)) + 1 and sched_ok(self)"),
            ("C12:never-a-negative-number-of-servers", "self.c >= 0"),
        ],
        props=["C12"])

    # ---- Slotted: the same generator over (slots, next_slot_sizes); next_slot_sizes is slot_sizes rotated by one
    # (built in Slotted.__init__, not verified: I-CFG), so the size yielded with the date of slot k is the size of slot k
    M["slot_cfg_ok"] = ("lambda s: len(s.slots) > 0 and len(s.next_slot_sizes) == len(s.slots) "
                        "and forall_in(s.slots, lambda b: is_fin(b)) and is_fin(s.offset) and is_fin(s.cyclelength) and s.c == 0")
    M["slot_ok"] = ("lambda s: slot_cfg_ok(s) and gen_pos(s.schedule_generator) >= 0 "
                    "and ref_eq(gen_arg(s.schedule_generator, 'self'), s) and ref_eq(gen_arg(s.schedule_generator, 'boundaries'), s.slots) "
                    "and ref_eq(gen_arg(s.schedule_generator, 'values'), s.next_slot_sizes) and gen_arg(s.schedule_generator, 'offset') == s.offset")
    add(spec, "Slotted.get_next_slot", requires=[INV("slot_ok(self)")],
        modifies=["next_slot_date@self", "slot_size@self", "gen_pos@self.schedule_generator"], allocates=True,
        ensures=[
            ("C12:the-next-slot-is-at-the-cyclic-slot-time-plus-offset",
             "self.next_slot_date == self.offset + self.slots[old(gen_pos(self.schedule_generator)) % len(self.slots)] "
             "+ (old(gen_pos(self.schedule_generator)) // len(self.slots)) * self.cyclelength"),
            ("C12:with-the-size-the-table-gives-that-slot",
             "self.slot_size == self.next_slot_sizes[(old(gen_pos(self.schedule_generator)) + 1) % len(self.slots)]"),
            ("C12:one-step-along-the-table", "gen_pos(self.schedule_generator) == old(gen_pos(self.schedule_generator)) + 1 and slot_ok(self)"),
        ],
        props=["C12"])
    add(spec, "Slotted.initialise", requires=[INV("slot_cfg_ok(self)")],
        modifies=["schedule_generator@self", "next_slot_date@self", "slot_size@self", "gen_pos"], allocates=["GEN"],
        ensures=[("C12:the-first-slot-is-slot-0",
                  "slot_ok(self) and gen_pos(self.schedule_generator) == 1 and self.next_slot_date == self.offset + self.slots[0] "
                  "and self.slot_size == self.next_slot_sizes[1 % len(self.slots)]")],
        props=["C12"])

    # ---- constructors: the tables the generator runs over are what the user declared (C12)
    add(spec, "Slotted.__init__", types={"slots": "list:NumList", "slot_sizes": "list:IntList", "capacitated": "bool", "preemption": "orfalse:str", "offset": "num"},
        requires=["len(slots) > 0 and len(slot_sizes) == len(slots)", "forall_in(slots, lambda b: is_fin(b))", "is_fin(offset)"],
        modifies=["*"], allocates=True, raises=[("ValueError", "True")],
        ensures=[
            ("C12:the-slot-table-repeats-after-its-last-slot", "self.cyclelength == slots[len(slots) - 1] and ref_eq(self.slots, slots) and self.offset == offset"),
            ("C12:the-size-table-is-the-declared-one-rotated-so-that-slot-k-gets-the-k-th-size",
             "len(self.next_slot_sizes) == len(slot_sizes) and forall_int(lambda k: implies(0 <= k and k < len(slot_sizes), "
             "self.next_slot_sizes[(k + 1) % len(slot_sizes)] == slot_sizes[k]), trigger=lambda k: slot_sizes[k])"),
            ("C12:options-are-kept", "self.capacitated == capacitated and self.preemption == preemption and self.c == 0 and self.schedule_type == 'slotted'"),
            ("C12:a-valid-slot-configuration", "len(self.slots) > 0 and len(self.next_slot_sizes) == len(self.slots) and is_fin(self.offset) and self.offset >= 0 and is_fin(self.cyclelength)"),
        ],
        props=["C12"])
    add(spec, "Schedule.__init__", types={"numbers_of_servers": "list:IntList", "shift_end_dates": "list:NumList", "preemption": "orfalse:str", "offset": "num"},
        requires=["len(shift_end_dates) > 0 and len(numbers_of_servers) == len(shift_end_dates)", "forall_in(shift_end_dates, lambda b: is_fin(b))", "is_fin(offset)"],
        modifies=["*"], allocates=True, raises=[("ValueError", "True")],
        ensures=[
            ("C12:the-timetable-repeats-after-its-last-shift-end",
             "self.cyclelength == shift_end_dates[len(shift_end_dates) - 1] and ref_eq(self.shift_end_dates, shift_end_dates) "
             "and ref_eq(self.numbers_of_servers, numbers_of_servers) and self.offset == offset"),
            ("C12:options-are-kept", "self.preemption == preemption and self.schedule_type == 'schedule' and is_fin(self.offset) and self.offset >= 0"),
        ],
        props=["C12"])


def declare_node_side(spec):
    """shift changes at a node (C12 / C04): kill_server, add_new_servers, take_servers_off_duty, change_shift"""
    M = spec.macros
    SRV = "obj:Server"
    add(spec, "Node.kill_server", types={"srvr": SRV},
        requires=["has(self, 'servers') and srvr in self.servers", "is_fin(srvr.start_date)",
                  "is_fin(srvr.shift_end)", INV("float_clock(self)")],
        modifies=["total_time@srvr", "$seq@self.overtime", "$seq@self.all_servers_busy", "$seq@self.all_servers_total", "$seq@self.servers"],
        ensures=[
            ("C04+C12:a-leaving-server's-total-time-runs-from-its-start-until-now", "srvr.total_time == self.now - srvr.start_date"),
            ("C12:overtime-is-the-time-worked-past-the-shift-end", "S(self.overtime) == append1(old(S(self.overtime)), self.now - srvr.shift_end)"),
            ("C04:the-server's-totals-are-kept-for-the-utilisation",
             "S(self.all_servers_busy) == append1(old(S(self.all_servers_busy)), srvr.busy_time) and "
             "S(self.all_servers_total) == append1(old(S(self.all_servers_total)), srvr.total_time)"),
            ("C12:exactly-that-server-leaves", "S(self.servers) == remove1(old(S(self.servers)), srvr)"),
            ("C12:every-other-server-stays", "forall_in(old(S(self.servers)), lambda s: ref_eq(s, srvr) or s in self.servers)"),
            ("C12:no-server-appears", "forall_in(self.servers, lambda s: s in old(S(self.servers)))"),
            ("C12:the-server-is-gone", "implies(old(nodup_p(S(self.servers))), not (srvr in self.servers) and nodup_p(S(self.servers)))"),
        ],
        props=["C04", "C12"])

    add(spec, "Node.add_new_servers", types={"num_servers": "int"},
        requires=["has(self, 'servers')", "num_servers >= 0", "is_int(self.highest_id)", INV("float_clock(self)"), "is_fin(self.now)"],
        modifies=["$seq@self.servers", "highest_id@self"], allocates=["Server"],
        ensures=[
            ("C12:exactly-the-scheduled-number-of-servers-is-added", "len(self.servers) == old(len(self.servers)) + num_servers"),
            ("C12:servers-already-there-stay", "forall_int(lambda k: implies(0 <= k and k < old(len(self.servers)), ref_eq(self.servers[k], old(self.servers[k]))), trigger=lambda k: self.servers[k])"),
            ("C12+C04:new-servers-are-on-duty-idle-and-start-now",
             "forall_int(lambda k: implies(old(len(self.servers)) <= k and k < len(self.servers), not self.servers[k].busy and not self.servers[k].offduty "
             "and self.servers[k].cust is False and self.servers[k].start_date == self.now and ref_eq(self.servers[k].node, self) "
             "and not was_alive(self.servers[k]) and isinf(self.servers[k].next_end_service_date) "
             "and self.servers[k].id_number == old(self.highest_id) + (k - old(len(self.servers))) + 1), trigger=lambda k: self.servers[k])"),
            ("ids-advance", "self.highest_id == old(self.highest_id) + num_servers"),
        ],
        loop_invariants={0: [
            "len(self.servers) == old(len(self.servers)) + _i and self.highest_id == old(self.highest_id) + _i",
            "forall_int(lambda k: implies(0 <= k and k < old(len(self.servers)), ref_eq(self.servers[k], old(self.servers[k]))), trigger=lambda k: self.servers[k])",
            "forall_int(lambda k: implies(old(len(self.servers)) <= k and k < len(self.servers), not self.servers[k].busy and not self.servers[k].offduty "
            "and self.servers[k].cust is False and self.servers[k].start_date == self.now and ref_eq(self.servers[k].node, self) "
            "and not was_alive(self.servers[k]) and isinf(self.servers[k].next_end_service_date) "
            "and self.servers[k].id_number == old(self.highest_id) + (k - old(len(self.servers))) + 1), trigger=lambda k: self.servers[k])",
        ]},
        props=["C12", "C04"])


    # ---- after a shift change: free servers take interrupted customers first, then waiting ones (C12 / C05 / C02)
    IND_W = ["arrival_date", "service_start_date", "service_time", "service_end_date", "server", "reneging_date", "class_change_date", "next_class",
             "interrupted", "is_blocked", "destination"]
    add(spec, "Node.begin_service_if_possible_change_shift", loop_assumes_inv=True,
        requires=[INV("shape(self)"), INV("net_ok(self)"), INV("float_clock(self)"), INV("has_servers(self)"), INV("dyn_ok(self)"), INV("pop_fwd(self)"),
                  INV("all_waiting_ok(self)"), "not isinf(self.c)", INV("nodup_p(S(self.servers))"),
                  INV("self.number_interrupted_individuals == len(self.interrupted_individuals)"),
                  INV("implies(not isinf(self.c) and self.number_interrupted_individuals > 0, interrupted_head_ok(self))"),
                  INV("implies(self.dynamic_classes, forall_in(self.individuals, lambda q: forall_in(q, lambda i: has(i, 'class_change_date'))))")],
        modifies=[f + "@lambda o: ref_eq(loc(o), self)" for f in IND_W] + ["cust", "busy", "next_end_service_date"] +
                 ["number_in_service@self", "next_class_change_date@self", "next_class_change_ind@self",
                  "number_interrupted_individuals@self", "$seq@self.interrupted_individuals", "$seq[BlockedQ]", "len_blocked_queue"],
        allocates=True, raises=[("ValueError", "True")],
        ensures=[
            ("C05+C12:after-a-shift-change-no-server-that-was-free-stays-idle-while-someone-waits-or-is-interrupted",
             "forall_in(self.servers, lambda s: s.busy) or "
             "(forall_in(self.individuals, lambda q: forall_in(q, lambda i: i.server)) and self.number_interrupted_individuals == 0)"),
            ("C04:servers-busy-before-stay-with-their-customers",
             "forall_in(self.servers, lambda s: implies(oldf(s, 'busy'), s.busy and ref_eq(s.cust, oldf(s, 'cust'))))"),
            ("C12:the-set-of-servers-is-untouched", "S(self.servers) == old(S(self.servers))"),
        ],
        loop_invariants={0: [
            "S(self.servers) == old(S(self.servers))",
            "forall_in(self.servers, lambda s: implies(oldf(s, 'busy'), s.busy and ref_eq(s.cust, oldf(s, 'cust'))))",
            "forall_int(lambda j: implies(0 <= j and j < len(_it), _it[j] in self.servers and not oldf(_it[j], 'busy')), trigger=lambda j: _it[j])",
            "forall_in(self.servers, lambda s: oldf(s, 'busy') or s in free_servers)",
            "forall_int(lambda j: implies(_i <= j and j < len(_it), not _it[j].busy), trigger=lambda j: _it[j])",
            "implies(exists_int(lambda j: 0 <= j and j < _i and not _it[j].busy, trigger=lambda j: _it[j]), "
            "forall_in(self.individuals, lambda q: forall_in(q, lambda i: i.server)) and self.number_interrupted_individuals == 0)",
            "nodup_p(_it)",
        ]},
        props=["C02", "C04", "C05", "C12"])

    # ---- the shift-change event (C12), non-pre-emptive schedules.  Registered for the receiver class Node ("Node::Node.change_shift"):
    # the event loop keeps using the assumed placeholder Node.change_shift (which also covers pre-emptive schedules, unverified)
    add(spec, "Node::Node.change_shift",
        requires=[("scope:non-pre-emptive-schedule", "is_obj(self.schedule, 'Schedule') and as_obj(self.schedule, 'Schedule').preemption is False"),
                  INV("sched_ok(as_obj(self.schedule, 'Schedule'))"),
                  INV("shape(self)"), INV("net_ok(self)"), INV("float_clock(self)"), INV("has_servers(self)"), INV("dyn_ok(self)"), INV("pop_fwd(self)"),
                  INV("all_waiting_ok(self)"), "not isinf(self.c) and has(self, 'servers')", "is_fin(self.now) and is_fin(self.next_event_date)", "is_int(self.highest_id)",
                  INV("srv_dates_ok(self)"), INV("nodup_p(S(self.servers))"),
                  ("C12:a-shift-change-is-the-node's-own-event", "self.next_event_date == self.now"),
                  "len(self.overtime) >= 0 and len(self.all_servers_busy) >= 0 and len(self.all_servers_total) >= 0",
                  INV("self.number_interrupted_individuals == len(self.interrupted_individuals)"),
                  INV("implies(not isinf(self.c) and self.number_interrupted_individuals > 0, interrupted_head_ok(self))"),
                  INV("implies(self.dynamic_classes, forall_in(self.individuals, lambda q: forall_in(q, lambda i: has(i, 'class_change_date'))))")],
        modifies=["*"], allocates="any", raises=[("ValueError", "True")],
        expect_calls={"get_next_shift": 1, "take_servers_off_duty": 1, "add_new_servers": 1, "begin_service_if_possible_change_shift": 1},
        at_call={
            "take_servers_off_duty": [
                ("C12:the-node-takes-the-number-of-servers-the-timetable-prescribes-for-the-new-shift",
                 "self.c == as_obj(self.schedule, 'Schedule').numbers_of_servers[old(gen_pos(as_obj(self.schedule, 'Schedule').schedule_generator)) "
                 "% len(as_obj(self.schedule, 'Schedule').numbers_of_servers)]"),
                ("C12:the-next-shift-change-is-at-the-cyclic-boundary",
                 "self.next_shift_change == as_obj(self.schedule, 'Schedule').next_shift_change_date")],
            "add_new_servers": [
                ("C12:only-servers-finishing-a-customer-remain-and-they-are-off-duty",
                 "forall_in(self.servers, lambda s: s.busy and s.offduty)"),
                ("C12:exactly-the-prescribed-number-is-added", "arg_num_servers == self.c")],
            "begin_service_if_possible_change_shift": [
                ("C12:servers-on-duty-are-exactly-the-new-ones-as-many-as-the-timetable-prescribes",
                 "len(self.servers) >= self.c and forall_int(lambda k: implies(0 <= k and k < len(self.servers), "
                 "(not self.servers[k].offduty) == (k >= len(self.servers) - self.c)), trigger=lambda k: self.servers[k])")],
        },
        props=["C12", "C05"])


def declare_shift_end(spec):
    """shift end at a node with a non-pre-emptive schedule (verified); the pre-emptive branch is outside the contract scope (DESIGN.md A.7).  take_servers_off_duty:
    every obligation discharges (two need the relevancy-1 attempt)."""
    M = spec.macros
    # ---- a shift ends (C12): non-pre-emptive: busy servers finish their customer as overtime (marked off duty), idle ones leave;
    # pre-emptive: every service in progress is interrupted now and every server leaves
    M["srv_dates_ok"] = ("lambda n: forall_in(n.servers, lambda s: is_fin(s.start_date) and is_fin(s.busy_time) "
                         "and (s.shift_end is False or is_fin(s.shift_end)))")
    add(spec, "Node.take_servers_off_duty", types={"preemption": "orfalse:str"},
        requires=[("scope:non-pre-emptive-schedule (a pre-emptive shift end -- interrupt_service for every customer in service -- is not under contract)", "preemption is False"),
                  "has(self, 'servers')", INV("float_clock(self)"), "is_fin(self.now) and is_fin(self.next_event_date)", INV("srv_dates_ok(self)"),
                  ("C12:a-shift-change-is-the-node's-own-event", "self.next_event_date == self.now"),
                  "len(self.overtime) >= 0 and len(self.all_servers_busy) >= 0 and len(self.all_servers_total) >= 0 and len(self.servers) >= 0",
                  INV("nodup_p(S(self.servers))")],
        allocates=True, raises=[("ValueError", "True")],
        loop_invariants={
            0: ["S(self.servers) == old(S(self.servers)) and S(self.servers) == _it and nodup_p(_it)",
                "forall_int(lambda j: implies(0 <= j and j < _i, _it[j].shift_end == self.now and implies(_it[j].busy, _it[j].offduty) "
                "and (_it[j].busy or _it[j] in to_delete)), trigger=lambda j: _it[j])",
                "forall_int(lambda k: implies(0 <= k and k < len(to_delete), 0 <= index_of(_it, to_delete[k]) and index_of(_it, to_delete[k]) < _i "
                "and not as_obj(to_delete[k], 'Server').busy and is_fin(as_obj(to_delete[k], 'Server').shift_end)), trigger=lambda k: to_delete[k])",
                "same('busy')",
                "nodup_p(S(to_delete))"],
            2: ["S(to_delete) == _it and nodup_p(_it) and nodup_p(S(self.servers))",
                "len(self.servers) == old(len(self.servers)) - _i",
                "forall_int(lambda j: implies(0 <= j and j < len(_it), _it[j] in old(S(self.servers)) and is_fin(_it[j].shift_end) "
                "and not _it[j].busy and not oldf(_it[j], 'busy')), trigger=lambda j: _it[j])",
                "forall_int(lambda j: implies(_i <= j and j < len(_it), _it[j] in self.servers), trigger=lambda j: _it[j])",
                "forall_int(lambda j: implies(0 <= j and j < _i, not (_it[j] in self.servers)), trigger=lambda j: _it[j])",
                "forall_in(self.servers, lambda s: s in old(S(self.servers)) and (s.busy or s in to_delete))",
                "forall_in(old(S(self.servers)), lambda s: implies(oldf(s, 'busy'), s in self.servers))"],
        },

        at_call={"kill_server": [
            ("lemma-the-server-to-delete-is-still-there", "obs in self.servers and index_of(_it2, obs) == _i2"),
            ("lemma-later-entries-are-other-servers",
             "forall_int(lambda j: implies(_i2 < j and j < len(_it2), not ref_eq(_it2[j], obs)), trigger=lambda j: _it2[j])"),
        ]},
        modifies=["shift_end@S(self.servers)", "offduty@S(self.servers)", "total_time", "$seq@self.servers",
                  "$seq@self.overtime", "$seq@self.all_servers_busy", "$seq@self.all_servers_total"],
        ensures=[
            ("C12:busy-servers-stay-to-finish-their-customer-and-are-marked-off-duty",
             "forall_in(old(S(self.servers)), lambda s: implies(oldf(s, 'busy'), s in self.servers and s.offduty and s.shift_end == self.now))"),
            ("C12:idle-servers-leave-at-once",
             "forall_in(self.servers, lambda s: s.busy and s in old(S(self.servers)))"),
            ("C12:no-service-is-touched", "same('cust', 'busy', 'service_start_date', 'service_end_date', 'number_in_service')"),
        ],
        props=["C12"])


def declare_interrupt(spec):
    """interrupting a service at a pre-emptive shift end / slot (C12, C11, C02)"""
    IND = "obj:Individual"
    add(spec, "Node.interrupt_service", types={"individual": IND},
        requires=[INV("shape(self)"), INV("net_ok(self)"), INV("float_clock(self)"), "is_fin(self.now)",
                  "is_obj(self.schedule, 'Schedule')",
                  "as_obj(self.schedule, 'Schedule').preemption == 'resume' or as_obj(self.schedule, 'Schedule').preemption == 'restart' "
                  "or as_obj(self.schedule, 'Schedule').preemption == 'resample'",
                  # scope: the 're-route' option (the customer is sent away through release, an unbounded cascade) is not under contract
                  ("C12:the-customer-is-in-service-here-possibly-blocked-after-its-service",
                   "ref_eq(loc(individual), self) and is_time(individual.service_start_date) and is_fin(individual.service_start_date) "
                   "and is_time(individual.service_end_date) and is_fin(individual.service_end_date) and is_time(individual.arrival_date) and is_fin(individual.arrival_date) "
                   "and individual.arrival_date <= individual.service_start_date and individual.service_start_date <= individual.service_end_date "
                   "and individual.service_start_date <= self.now and implies(not individual.is_blocked, self.now <= individual.service_end_date) "
                   "and not individual.interrupted and cls_ok(self, individual) "
                   "and implies(not self.slotted, is_obj(individual.server, 'Server'))"),
                  "len(self.interrupted_individuals) >= 0"],
        allocates=True, raises=[("ValueError", "True")],

        modifies=[f + "@individual" for f in ["original_service_time", "interrupted", "original_service_start_date", "service_start_date", "time_left",
                                              "service_time", "service_end_date"]]
        + ["$seq@individual.data_records", "$seq@self.interrupted_individuals", "number_interrupted_individuals@self", "number_in_service@self"],
        ensures=[
            ("C12:interrupted-now-and-queued-for-restart",
             "S(self.interrupted_individuals) == append1(old(S(self.interrupted_individuals)), individual) and individual.interrupted "
             "and self.number_interrupted_individuals == old(self.number_interrupted_individuals) + 1 "
             "and self.number_in_service == old(self.number_in_service) - 1 and individual.service_start_date is False and individual.service_end_date is False"),
            ("C11+C12:the-interruption-is-recorded",
             "len(individual.data_records) == old(len(individual.data_records)) + 1 "
             "and individual.data_records[len(individual.data_records) - 1].record_type == 'interrupted service' "
             "and individual.data_records[len(individual.data_records) - 1].node == self.id_number "
             "and individual.data_records[len(individual.data_records) - 1].exit_date == self.now "
             "and individual.data_records[len(individual.data_records) - 1].service_start_date == old(individual.service_start_date) "
             "and individual.data_records[len(individual.data_records) - 1].service_time == old(individual.service_time)"),
            ("C02+C12:the-time-still-to-serve-is-never-negative-and-is-what-was-left",
             "is_fin(individual.time_left) and individual.time_left >= 0 "
             "and implies(not individual.is_blocked, individual.time_left == old(individual.service_end_date) - self.now)"),
            ("C11+C12:what-to-do-at-restart-is-remembered",
             "individual.service_time == as_obj(self.schedule, 'Schedule').preemption and individual.original_service_time == old(individual.service_time) "
             "and individual.original_service_start_date == old(individual.service_start_date)"),
        ],
        props=["C12", "C11", "C02"])


def declare_slotted(spec):
    """the slotted-service event (C12): services start only here, at most the slot size per slot"""
    M = spec.macros
    add(spec, "Node.interrupt_slotted_services", inline=True)
    add(spec, "Node::Node.slotted_service", loop_assumes_inv=True,
        requires=[("scope:no-pre-emptive-capacitated-slots (interrupt_slotted_services then does nothing; sorting by a tuple key is outside the verified subset)",
                   "is_obj(self.schedule, 'Slotted') and not (as_obj(self.schedule, 'Slotted').capacitated and as_obj(self.schedule, 'Slotted').preemption is not False)"),
                  INV("slot_ok(as_obj(self.schedule, 'Slotted'))"), "self.slotted and self.c == 0",
                  INV("shape(self)"), INV("net_ok(self)"), INV("float_clock(self)"), INV("has_servers(self)"), INV("dyn_ok(self)"), INV("pop_fwd(self)"),
                  INV("all_waiting_ok(self)"), "is_fin(self.now)", "as_obj(self.schedule, 'Slotted').slot_size >= 0",
                  INV("self.number_interrupted_individuals == len(self.interrupted_individuals)"),
                  INV("implies(self.number_interrupted_individuals > 0, interrupted_head_ok(self))"),
                  INV("self.number_in_service >= 0 and self.number_of_individuals >= 0"),
                  INV("implies(self.dynamic_classes, forall_in(self.individuals, lambda q: forall_in(q, lambda i: has(i, 'class_change_date'))))")],
        modifies=["*"], allocates="any", raises=[("ValueError", "True")],
        expect_calls={"get_next_slot": 1},
        at_call={"get_next_slot": [
            ("C12:at-most-the-slot-size-services-start-in-a-slot",
             "self.number_in_service <= old(self.number_in_service) + old(as_obj(self.schedule, 'Slotted').slot_size)"),
            ("C12:under-capacitated-slots-at-most-the-slot-size-is-in-service-right-after-the-slot",
             "implies(old(as_obj(self.schedule, 'Slotted').capacitated) and old(self.number_in_service) <= old(as_obj(self.schedule, 'Slotted').slot_size), "
             "self.number_in_service <= old(as_obj(self.schedule, 'Slotted').slot_size))"),
            ("C12:never-more-starts-than-customers-present", "self.number_in_service <= old(self.number_in_service) + old(self.number_of_individuals)"),
        ]},
        loop_invariants={0: [
            "self.number_in_service <= old(self.number_in_service) + _i and self.number_in_service >= old(self.number_in_service)",
            "self.number_of_individuals == old(self.number_of_individuals)",
            "ref_eq(self.schedule, old(self.schedule)) and as_obj(self.schedule, 'Slotted').slot_size == old(as_obj(self.schedule, 'Slotted').slot_size) "
            "and as_obj(self.schedule, 'Slotted').capacitated == old(as_obj(self.schedule, 'Slotted').capacitated)",
            "gen_pos(as_obj(self.schedule, 'Slotted').schedule_generator) == old(gen_pos(as_obj(self.schedule, 'Slotted').schedule_generator))",
        ]},
        props=["C12", "C02"])
