"""Contracts for ciw/schedules.py (C12): the cyclic timetable generator and the objects that consume it."""
from . import add
from .c_node import INV


def declare(spec):
    from .typesdecl import F
    M = spec.macros
    # the k-th value of the timetable generator (k from 0): end date of shift k and the number of servers of shift k + 1
    YIELDS = ("lambda k: (offset + boundaries[k % len(boundaries)] + (k // len(boundaries)) * self.cyclelength, "
              "values[(k + 1) % len(boundaries)])")
    add(spec, "Schedule.get_schedule_generator",
        types={"boundaries": "list:NumList", "values": "list:IntList", "offset": "num"},
        requires=["len(boundaries) > 0 and len(values) == len(boundaries)", "is_fin(offset) and is_fin(self.cyclelength)",
                  "forall_in(boundaries, lambda b: is_fin(b))"],
        modifies=[], yields=YIELDS, gen_kind="Sched",
        loop_invariants={0: ["index == _yielded", "index >= 0", "num_boundaries == len(boundaries)"]},
        props=["C12"])
    spec.gen_kinds["Sched"] = "Schedule.get_schedule_generator"
    for prm in ["self", "boundaries", "values", "offset"]:
        spec.ghost["gen$Sched$" + prm] = "val"

    # ---- Schedule: the timetable consumer.  sched_ok ties next_c to the generator position:
    # after k shifts have been taken, c is the size of shift k-1... and next_c the size of shift k (cyclically)
    M["sched_cfg_ok"] = ("lambda s: len(s.shift_end_dates) > 0 and len(s.numbers_of_servers) == len(s.shift_end_dates) "
                         "and forall_in(s.shift_end_dates, lambda b: is_fin(b)) and is_fin(s.offset) and is_fin(s.cyclelength)")
    M["sched_ok"] = ("lambda s: sched_cfg_ok(s) and gen_pos(s.schedule_generator) >= 0 "
                     "and s.next_c == s.numbers_of_servers[gen_pos(s.schedule_generator) % len(s.numbers_of_servers)] "
                     "and same_gen_args(s)")
    M["same_gen_args"] = ("lambda s: ref_eq(gen_arg(s.schedule_generator, 'self'), s) and ref_eq(gen_arg(s.schedule_generator, 'boundaries'), s.shift_end_dates) "
                          "and ref_eq(gen_arg(s.schedule_generator, 'values'), s.numbers_of_servers) and gen_arg(s.schedule_generator, 'offset') == s.offset")
    add(spec, "Schedule.initialise", requires=[INV("sched_cfg_ok(self)")],
        modifies=["c@self", "next_shift_change_date@self", "next_c@self", "schedule_generator@self"], allocates=["GEN"],
        ensures=[("C12:starts-with-no-servers-until-the-offset", "self.c == 0 and self.next_shift_change_date == self.offset"),
                 ("C12:the-first-shift-is-shift-0", "sched_ok(self) and gen_pos(self.schedule_generator) == 0")],
        props=["C12"])
    add(spec, "Schedule.get_next_shift", requires=[INV("sched_ok(self)")],
        modifies=["c@self", "next_shift_change_date@self", "next_c@self", "gen_pos@self.schedule_generator"], allocates=True,
        ensures=[
            ("C12:servers-on-duty-are-those-the-timetable-prescribes-for-this-shift",
             "self.c == self.numbers_of_servers[old(gen_pos(self.schedule_generator)) % len(self.numbers_of_servers)]"),
            ("C12:the-shift-ends-at-the-cyclic-boundary-plus-offset",
             "self.next_shift_change_date == self.offset + self.shift_end_dates[old(gen_pos(self.schedule_generator)) % len(self.shift_end_dates)] "
             "+ (old(gen_pos(self.schedule_generator)) // len(self.shift_end_dates)) * self.cyclelength"),
            ("C12:one-step-along-the-timetable", "gen_pos(self.schedule_generator) == old(gen_pos(self.schedule_generator)) + 1 and sched_ok(self)"),
        ],
        props=["C12"])

    # ---- Slotted: the same generator over (slots, next_slot_sizes); next_slot_sizes is slot_sizes rotated by one
    # (built in Slotted.__init__, not verified: I-CFG), so the size yielded with the date of slot k is the size of slot k
    M["slot_cfg_ok"] = ("lambda s: len(s.slots) > 0 and len(s.next_slot_sizes) == len(s.slots) "
                        "and forall_in(s.slots, lambda b: is_fin(b)) and is_fin(s.offset) and is_fin(s.cyclelength) and s.c == 0")
    M["slot_ok"] = ("lambda s: slot_cfg_ok(s) and gen_pos(s.schedule_generator) >= 0 "
                    "and ref_eq(gen_arg(s.schedule_generator, 'self'), s) and ref_eq(gen_arg(s.schedule_generator, 'boundaries'), s.slots) "
                    "and ref_eq(gen_arg(s.schedule_generator, 'values'), s.next_slot_sizes) and gen_arg(s.schedule_generator, 'offset') == s.offset")
    add(spec, "Slotted.get_next_slot", requires=[INV("slot_ok(self)")],
        modifies=["next_slot_date@self", "slot_size@self", "gen_pos@self.schedule_generator"], allocates=True,
        ensures=[
            ("C12:the-next-slot-is-at-the-cyclic-slot-time-plus-offset",
             "self.next_slot_date == self.offset + self.slots[old(gen_pos(self.schedule_generator)) % len(self.slots)] "
             "+ (old(gen_pos(self.schedule_generator)) // len(self.slots)) * self.cyclelength"),
            ("C12:with-the-size-the-table-gives-that-slot",
             "self.slot_size == self.next_slot_sizes[(old(gen_pos(self.schedule_generator)) + 1) % len(self.slots)]"),
            ("C12:one-step-along-the-table", "gen_pos(self.schedule_generator) == old(gen_pos(self.schedule_generator)) + 1 and slot_ok(self)"),
        ],
        props=["C12"])
    add(spec, "Slotted.initialise", requires=[INV("slot_cfg_ok(self)")],
        modifies=["schedule_generator@self", "next_slot_date@self", "slot_size@self", "gen_pos"], allocates=["GEN"],
        ensures=[("C12:the-first-slot-is-slot-0",
                  "slot_ok(self) and gen_pos(self.schedule_generator) == 1 and self.next_slot_date == self.offset + self.slots[0] "
                  "and self.slot_size == self.next_slot_sizes[1 % len(self.slots)]")],
        props=["C12"])
