"""Contracts for ciw/schedules.py (C12): the cyclic timetable generator and the objects that consume it."""
from . import add
from .c_node import INV


def declare(spec):
    from .typesdecl import F
    M = spec.macros
    # the k-th value of the timetable generator (k from 0): end date of shift k and the number of servers of shift k + 1
    YIELDS = ("lambda k: (offset + boundaries[k % len(boundaries)] + (k // len(boundaries)) * self.cyclelength, "
              "values[(k + 1) % len(boundaries)])")
    add(spec, "Schedule.get_schedule_generator",
        types={"boundaries": "list:NumList", "values": "list:IntList", "offset": "num"},
        requires=["len(boundaries) > 0 and len(values) == len(boundaries)", "is_fin(offset) and is_fin(self.cyclelength)",
                  "forall_in(boundaries, lambda b: is_fin(b))"],
        modifies=[], yields=YIELDS, gen_kind="Sched",
        loop_invariants={0: ["index == _yielded", "index >= 0", "num_boundaries == len(boundaries)"]},
        props=["C12"])
    spec.gen_kinds["Sched"] = "Schedule.get_schedule_generator"
    for prm in ["self", "boundaries", "values", "offset"]:
        spec.ghost["gen$Sched$" + prm] = "val"

    # ---- Schedule: the timetable consumer.  sched_ok ties next_c to the generator position:
    # after k shifts have been taken, c is the size of shift k-1... and next_c the size of shift k (cyclically)
    M["sched_cfg_ok"] = ("lambda s: len(s.shift_end_dates) > 0 and len(s.numbers_of_servers) == len(s.shift_end_dates) "
                         "and forall_in(s.shift_end_dates, lambda b: is_fin(b)) and is_fin(s.offset) and is_fin(s.cyclelength)")
    M["sched_ok"] = ("lambda s: sched_cfg_ok(s) and gen_pos(s.schedule_generator) >= 0 "
                     "and s.next_c == s.numbers_of_servers[gen_pos(s.schedule_generator) % len(s.numbers_of_servers)] "
                     "and same_gen_args(s)")
    M["same_gen_args"] = ("lambda s: ref_eq(gen_arg(s.schedule_generator, 'self'), s) and ref_eq(gen_arg(s.schedule_generator, 'boundaries'), s.shift_end_dates) "
                          "and ref_eq(gen_arg(s.schedule_generator, 'values'), s.numbers_of_servers) and gen_arg(s.schedule_generator, 'offset') == s.offset")
    add(spec, "Schedule.initialise", requires=[INV("sched_cfg_ok(self)")],
        modifies=["c@self", "next_shift_change_date@self", "next_c@self", "schedule_generator@self"], allocates=["GEN"],
        ensures=[("C12:starts-with-no-servers-until-the-offset", "self.c == 0 and self.next_shift_change_date == self.offset"),
                 ("C12:the-first-shift-is-shift-0", "sched_ok(self) and gen_pos(self.schedule_generator) == 0")],
        props=["C12"])
    add(spec, "Schedule.get_next_shift", requires=[INV("sched_ok(self)")],
        modifies=["c@self", "next_shift_change_date@self", "next_c@self", "gen_pos@self.schedule_generator"], allocates=True,
        ensures=[
            ("C12:servers-on-duty-are-those-the-timetable-prescribes-for-this-shift",
             "self.c == self.numbers_of_servers[old(gen_pos(self.schedule_generator)) % len(self.numbers_of_servers)]"),
            ("C12:the-shift-ends-at-the-cyclic-boundary-plus-offset",
             "self.next_shift_change_date == self.offset + self.shift_end_dates[old(gen_pos(self.schedule_generator)) % len(self.shift_end_dates)] "
             "+ (old(gen_pos(self.schedule_generator)) // len(self.shift_end_dates)) * self.cyclelength"),
            ("C12:one-step-along-the-timetable", "gen_pos(self.schedule_generator) == old(gen_pos(self.schedule_generator)) + 1 and sched_ok(self)"),
        ],
        props=["C12"])

    # ---- Slotted: the same generator over (slots, next_slot_sizes); next_slot_sizes is slot_sizes rotated by one
    # (built in Slotted.__init__, not verified: I-CFG), so the size yielded with the date of slot k is the size of slot k
    M["slot_cfg_ok"] = ("lambda s: len(s.slots) > 0 and len(s.next_slot_sizes) == len(s.slots) "
                        "and forall_in(s.slots, lambda b: is_fin(b)) and is_fin(s.offset) and is_fin(s.cyclelength) and s.c == 0")
    M["slot_ok"] = ("lambda s: slot_cfg_ok(s) and gen_pos(s.schedule_generator) >= 0 "
                    "and ref_eq(gen_arg(s.schedule_generator, 'self'), s) and ref_eq(gen_arg(s.schedule_generator, 'boundaries'), s.slots) "
                    "and ref_eq(gen_arg(s.schedule_generator, 'values'), s.next_slot_sizes) and gen_arg(s.schedule_generator, 'offset') == s.offset")
    add(spec, "Slotted.get_next_slot", requires=[INV("slot_ok(self)")],
        modifies=["next_slot_date@self", "slot_size@self", "gen_pos@self.schedule_generator"], allocates=True,
        ensures=[
            ("C12:the-next-slot-is-at-the-cyclic-slot-time-plus-offset",
             "self.next_slot_date == self.offset + self.slots[old(gen_pos(self.schedule_generator)) % len(self.slots)] "
             "+ (old(gen_pos(self.schedule_generator)) // len(self.slots)) * self.cyclelength"),
            ("C12:with-the-size-the-table-gives-that-slot",
             "self.slot_size == self.next_slot_sizes[(old(gen_pos(self.schedule_generator)) + 1) % len(self.slots)]"),
            ("C12:one-step-along-the-table", "gen_pos(self.schedule_generator) == old(gen_pos(self.schedule_generator)) + 1 and slot_ok(self)"),
        ],
        props=["C12"])
    add(spec, "Slotted.initialise", requires=[INV("slot_cfg_ok(self)")],
        modifies=["schedule_generator@self", "next_slot_date@self", "slot_size@self", "gen_pos"], allocates=["GEN"],
        ensures=[("C12:the-first-slot-is-slot-0",
                  "slot_ok(self) and gen_pos(self.schedule_generator) == 1 and self.next_slot_date == self.offset + self.slots[0] "
                  "and self.slot_size == self.next_slot_sizes[1 % len(self.slots)]")],
        props=["C12"])


def declare_node_side(spec):
    """shift changes at a node (C12 / C04): kill_server, add_new_servers, take_servers_off_duty, change_shift"""
    M = spec.macros
    SRV = "obj:Server"
    add(spec, "Node.kill_server", types={"srvr": SRV},
        requires=["has(self, 'servers') and srvr in self.servers", "is_fin(srvr.start_date)",
                  "is_fin(srvr.shift_end)", INV("float_clock(self)")],
        modifies=["total_time@srvr", "$seq@self.overtime", "$seq@self.all_servers_busy", "$seq@self.all_servers_total", "$seq@self.servers"],
        ensures=[
            ("C04+C12:a-leaving-server's-total-time-runs-from-its-start-until-now", "srvr.total_time == self.now - srvr.start_date"),
            ("C12:overtime-is-the-time-worked-past-the-shift-end", "S(self.overtime) == append1(old(S(self.overtime)), self.now - srvr.shift_end)"),
            ("C04:the-server's-totals-are-kept-for-the-utilisation",
             "S(self.all_servers_busy) == append1(old(S(self.all_servers_busy)), srvr.busy_time) and "
             "S(self.all_servers_total) == append1(old(S(self.all_servers_total)), srvr.total_time)"),
            ("C12:exactly-that-server-leaves", "S(self.servers) == remove1(old(S(self.servers)), srvr)"),
        ],
        props=["C04", "C12"])

    add(spec, "Node.add_new_servers", types={"num_servers": "int"},
        requires=["has(self, 'servers')", "num_servers >= 0", "is_int(self.highest_id)", INV("float_clock(self)"), "is_fin(self.now)"],
        modifies=["$seq@self.servers", "highest_id@self"], allocates=["Server"],
        ensures=[
            ("C12:exactly-the-scheduled-number-of-servers-is-added", "len(self.servers) == old(len(self.servers)) + num_servers"),
            ("C12:servers-already-there-stay", "forall_int(lambda k: implies(0 <= k and k < old(len(self.servers)), ref_eq(self.servers[k], old(self.servers[k]))), trigger=lambda k: self.servers[k])"),
            ("C12+C04:new-servers-are-on-duty-idle-and-start-now",
             "forall_int(lambda k: implies(old(len(self.servers)) <= k and k < len(self.servers), not self.servers[k].busy and not self.servers[k].offduty "
             "and self.servers[k].cust is False and self.servers[k].start_date == self.now and ref_eq(self.servers[k].node, self) "
             "and not was_alive(self.servers[k]) and isinf(self.servers[k].next_end_service_date) "
             "and self.servers[k].id_number == old(self.highest_id) + (k - old(len(self.servers))) + 1), trigger=lambda k: self.servers[k])"),
            ("ids-advance", "self.highest_id == old(self.highest_id) + num_servers"),
        ],
        loop_invariants={0: [
            "len(self.servers) == old(len(self.servers)) + _i and self.highest_id == old(self.highest_id) + _i",
            "forall_int(lambda k: implies(0 <= k and k < old(len(self.servers)), ref_eq(self.servers[k], old(self.servers[k]))), trigger=lambda k: self.servers[k])",
            "forall_int(lambda k: implies(old(len(self.servers)) <= k and k < len(self.servers), not self.servers[k].busy and not self.servers[k].offduty "
            "and self.servers[k].cust is False and self.servers[k].start_date == self.now and ref_eq(self.servers[k].node, self) "
            "and not was_alive(self.servers[k]) and isinf(self.servers[k].next_end_service_date) "
            "and self.servers[k].id_number == old(self.highest_id) + (k - old(len(self.servers))) + 1), trigger=lambda k: self.servers[k])",
        ]},
        props=["C12", "C04"])



def declare_drafts(spec):
    """NOT wired into build_spec: contracts drafted but not yet verified (see DESIGN.md A.7).  take_servers_off_duty[overtime]:
    the postconditions and most loop obligations discharge; five loop-step / frame obligations still time out."""
    M = spec.macros
    # ---- a shift ends (C12): non-pre-emptive: busy servers finish their customer as overtime (marked off duty), idle ones leave;
    # pre-emptive: every service in progress is interrupted now and every server leaves
    M["srv_dates_ok"] = ("lambda n: forall_in(n.servers, lambda s: is_fin(s.start_date) and is_fin(s.busy_time) "
                         "and (s.shift_end is False or is_fin(s.shift_end)))")
    add(spec, "Node.take_servers_off_duty", types={"preemption": "orfalse:str"},
        requires=["has(self, 'servers')", INV("float_clock(self)"), "is_fin(self.now)", INV("srv_dates_ok(self)"),
                  ("C12:a-shift-change-is-the-node's-own-event", "self.next_event_date == self.now"),
                  "len(self.overtime) >= 0 and len(self.all_servers_busy) >= 0 and len(self.all_servers_total) >= 0 and len(self.servers) >= 0",
                  INV("nodup(S(self.servers))")],
        allocates=True, raises=[("ValueError", "True")],
        loop_invariants={
                     0: ["forall_int(lambda j: implies(0 <= j and j < _i, _it[j].shift_end == self.now and implies(_it[j].busy, _it[j].offduty) "
                         "and (_it[j].busy or _it[j] in to_delete)), trigger=lambda j: _it[j])",
                         "forall_in(to_delete, lambda s: s in self.servers and not s.busy and s.shift_end == self.now)",
                         "S(self.servers) == old(S(self.servers))", "srv_dates_ok(self)",
                         "forall_in(to_delete, lambda s: index_of(_it, s) < _i)",
                         "nodup(S(to_delete))"],
                     2: ["forall_int(lambda j: implies(_i <= j and j < len(_it), as_obj(_it[j], 'Server') in self.servers), trigger=lambda j: _it[j])",
                         "forall_in(to_delete, lambda s: s in old(S(self.servers)) and s.shift_end == self.now and is_fin(s.start_date) and is_fin(s.busy_time) and not s.busy)",
                         "nodup(S(to_delete))", "S(to_delete) == _it", "nodup(S(self.servers))",
                         "forall_in(self.servers, lambda s: s in old(S(self.servers)) and (s.busy or s in to_delete))",
                         "forall_in(old(S(self.servers)), lambda s: implies(oldf(s, 'busy'), s in self.servers))",
                         "forall_int(lambda j: implies(0 <= j and j < _i, not (as_obj(_it[j], 'Server') in self.servers)), trigger=lambda j: _it[j])",
                         "srv_dates_ok(self)"],
        },
        cases=[
            dict(name="overtime", when="preemption is False",
                 modifies=["shift_end@S(self.servers)", "offduty@S(self.servers)", "total_time@S(self.servers)", "$seq@self.servers",
                           "$seq@self.overtime", "$seq@self.all_servers_busy", "$seq@self.all_servers_total"],
                 ensures=[
                     ("C12:busy-servers-stay-to-finish-their-customer-and-are-marked-off-duty",
                      "forall_in(old(S(self.servers)), lambda s: implies(oldf(s, 'busy'), s in self.servers and s.offduty and s.shift_end == self.now))"),
                     ("C12:idle-servers-leave-at-once",
                      "forall_in(self.servers, lambda s: s.busy and s in old(S(self.servers)))"),
                     ("C12:no-service-is-touched", "same('cust', 'busy', 'service_start_date', 'service_end_date', 'number_in_service')"),
                 ]),
            dict(name="preemptive", when="not (preemption is False)", modifies=["*"], ensures=[]),
        ],
        props=["C12"])
