"""Sidecar contracts for Ciw (no annotation is written into /repo).  build_spec() assembles the
field-type table, list kinds, external models and all function contracts."""
from pyvc.symexec import Spec, Contract
from pyvc.types import parse as T


def build_spec():
    spec = Spec()
    from . import typesdecl, externals, ghost
    typesdecl.declare(spec)
    externals.declare(spec)
    ghost.declare(spec)
    import importlib
    for mod in MODULES:
        m = importlib.import_module("contracts." + mod)
        m.declare(spec)
    from . import c_exit_arrival, c_simulation
    c_exit_arrival.declare_arrivals(spec)
    c_simulation.declare_loops(spec)
    from . import c_schedules, c_preempt
    c_schedules.declare_node_side(spec)
    c_schedules.declare_shift_end(spec)
    c_schedules.declare_interrupt(spec)
    c_schedules.declare_slotted(spec)
    c_preempt.declare_class_change_event(spec)
    return spec


MODULES = ["c_auxiliary", "c_assumed", "c_node", "c_exit_arrival", "c_simulation", "c_dists", "c_trackers", "c_routing", "c_preempt", "c_schedules", "c_init", "c_exact"]


def add(spec, target, **kw):
    c = Contract(target, **kw)
    spec.contracts[target] = c
    return c
