"""Contracts for priority pre-emption (C11): Node.preempt and Node.decide_preempt."""
from . import add
from .c_node import INV

IND = "obj:Individual"


def declare(spec):
    M = spec.macros
    # a customer in service on a real server of node n, not blocked (C11 is stated for nodes whose customers are never blocked)
    M["in_service_here"] = (
        "lambda n, i: ref_eq(loc(i), n) and is_obj(i.server, 'Server') and as_obj(i.server, 'Server') in n.servers "
        "and ref_eq(as_obj(i.server, 'Server').cust, i) and as_obj(i.server, 'Server').busy "
        "and is_fin(as_obj(i.server, 'Server').busy_time) and is_fin(as_obj(i.server, 'Server').start_date) "
        "and is_time(i.service_start_date) and is_fin(i.service_start_date) and is_time(i.service_end_date) and is_fin(i.service_end_date) "
        "and is_time(i.arrival_date) and is_fin(i.arrival_date) and i.arrival_date <= i.service_start_date "
        "and i.service_start_date <= n.now and n.now <= i.service_end_date and not i.is_blocked and not i.interrupted "
        "and cls_ok(n, i) and (i.exit_date is False or is_fin(i.exit_date))")
    M["waiting_here"] = ("lambda n, i: ref_eq(loc(i), n) and not i.server and cls_ok(n, i)")

    PRE = [INV("shape(self)"), INV("net_ok(self)"), INV("float_clock(self)"), INV("dyn_ok(self)"),
           "not isinf(self.c) and not self.slotted and has(self, 'servers')",
           "self.priority_preempt == 'resume' or self.priority_preempt == 'restart' or self.priority_preempt == 'resample' or self.priority_preempt == 'reroute'",
           ("C11:victim-is-in-service-here", "in_service_here(self, individual_to_preempt)"),
           ("C11:pre-emptor-is-waiting-here", "waiting_here(self, next_individual) and not ref_eq(next_individual, individual_to_preempt)"),
           ("C11+C12:victims-server-is-on-duty", "not as_obj(individual_to_preempt.server, 'Server').offduty"),
           INV("implies(self.dynamic_classes, forall_in(self.individuals, lambda q: forall_in(q, lambda i: has(i, 'class_change_date'))))")]
    # what release() needs of a customer that is sent away (reroute option)
    REROUTE_PRE = [INV("has_servers(self)"), INV("pop_fwd(self)"), INV("all_waiting_ok(self)"), INV("all_nodes_alike(self)"), INV("net_router_ok(self.simulation.routers[individual_to_preempt.customer_class])"),
                   INV("self.number_interrupted_individuals == len(self.interrupted_individuals)"),
                   INV("implies(not isinf(self.c) and self.number_interrupted_individuals > 0, interrupted_head_ok(self))"),
                   "prev_prio_ok(self, individual_to_preempt) and individual_to_preempt in self.individuals[individual_to_preempt.prev_priority_class]",
                   "0 <= individual_to_preempt.priority_class and individual_to_preempt.priority_class < self.simulation.number_of_priority_classes",
                   "float_dates(individual_to_preempt)", INV("is_fin(self.next_event_date) or is_pinf(self.next_event_date)"),
                   "counted_class(individual_to_preempt) == individual_to_preempt.previous_class",
                   "is_fin(as_obj(individual_to_preempt.server, 'Server').shift_end) or as_obj(individual_to_preempt.server, 'Server').shift_end is False"]
    V = "individual_to_preempt"
    NI = "next_individual"
    add(spec, "Node.preempt", types={V: IND, NI: IND}, requires=PRE, allocates=True, raises=[("ValueError", "True")],
        # structural invariants of the node at the call boundary after the victim has been sent away (ASSUMED, listed)
        lemma_after={"release": ["dyn_ok(self)", "shape(self)",
                                 "implies(self.dynamic_classes, forall_in(self.individuals, lambda q: forall_in(q, lambda i: has(i, 'class_change_date'))))"]},
        cases=[
            dict(name="requeue", when="self.priority_preempt != 'reroute'",
                 modifies=[f + "@" + V for f in ["service_start_date", "time_left", "service_time", "service_end_date", "original_service_time",
                                                  "server", "class_change_date", "next_class"]]
                 + ["$seq@" + V + ".data_records"]
                 + [f + "@" + V + ".server" for f in ["cust", "busy", "busy_time", "total_time", "next_end_service_date"]]
                 + [f + "@" + NI for f in ["server", "service_start_date", "service_time", "service_end_date", "class_change_date"]]
                 + ["next_class_change_date@self", "next_class_change_ind@self"],
                 ensures=[
                     ("C11:the-interruption-is-recorded",
                      f"len({V}.data_records) == old(len({V}.data_records)) + 1 "
                      f"and {V}.data_records[len({V}.data_records) - 1].record_type == 'interrupted service' "
                      f"and {V}.data_records[len({V}.data_records) - 1].node == self.id_number "
                      f"and {V}.data_records[len({V}.data_records) - 1].exit_date == self.now "
                      f"and {V}.data_records[len({V}.data_records) - 1].service_start_date == old({V}.service_start_date) "
                      f"and {V}.data_records[len({V}.data_records) - 1].service_time == old({V}.service_time)"),
                     ("C11:victim-goes-back-to-waiting-with-its-remaining-time-and-the-configured-option",
                      f"{V}.service_start_date is False and {V}.service_end_date is False and not {V}.server "
                      f"and {V}.time_left == old({V}.service_end_date) - self.now and {V}.time_left >= 0 "
                      f"and {V}.service_time == self.priority_preempt and {V}.original_service_time == old({V}.service_time)"),
                     ("C11:the-pre-emptor-takes-over-the-victims-server-now",
                      f"ref_eq({NI}.server, old({V}.server)) and ref_eq(as_obj({NI}.server, 'Server').cust, {NI}) and as_obj({NI}.server, 'Server').busy "
                      f"and {NI}.service_start_date == self.now and {NI}.service_end_date == self.now + {NI}.service_time and {NI}.service_time >= 0 "
                      f"and as_obj({NI}.server, 'Server').next_end_service_date == {NI}.service_end_date"),
                     ("C04:one-out-one-in", "self.number_in_service == old(self.number_in_service) and self.number_of_individuals == old(self.number_of_individuals)"),
                     ("C08:the-victim-keeps-its-place-in-its-line-and-no-line-is-reordered",
                      "forall_in(self.individuals, lambda q: S(q) == old(S(q)))"),
                     ("C02+C13:a-customer-sent-back-to-waiting-has-no-patience-end-in-the-past",
                      f"implies(self.reneging is True and has({V}, 'reneging_date'), {V}.reneging_date >= self.now)"),
                 ]),
            dict(name="reroute", when="self.priority_preempt == 'reroute'", requires=REROUTE_PRE, modifies=["*"],
                 expect_calls={"release": 1},
                 ensures=[
                     ("C11:the-pre-emptor-takes-over-the-victims-server-now",
                      f"ref_eq({NI}.server, old({V}.server)) and ref_eq(as_obj({NI}.server, 'Server').cust, {NI}) and as_obj({NI}.server, 'Server').busy "
                      f"and {NI}.service_start_date == self.now and {NI}.service_end_date == self.now + {NI}.service_time and {NI}.service_time >= 0 "
                      f"and as_obj({NI}.server, 'Server').next_end_service_date == {NI}.service_end_date"),
                 ]),
        ],
        props=["C11", "C04"])

    # ---- the decision: who is pre-empted (C11) -------------------------------------------------------------------
    # every server of the node is busy with a customer in service here (I-SRV; the scope of C11: nobody is blocked)
    M["servers_all_serving"] = ("lambda n: forall_in(n.servers, lambda s: s.busy and is_obj(s.cust, 'Individual') "
                                "and in_service_here(n, as_obj(s.cust, 'Individual')) and ref_eq(as_obj(s.cust, 'Individual').server, s) "
                                "and prio_ok(n, as_obj(s.cust, 'Individual')) and prev_prio_ok(n, as_obj(s.cust, 'Individual')) "
                                "and as_obj(s.cust, 'Individual') in n.individuals[as_obj(s.cust, 'Individual').prev_priority_class] "
                                "and float_dates(as_obj(s.cust, 'Individual')) and counted_class(as_obj(s.cust, 'Individual')) == as_obj(s.cust, 'Individual').previous_class "
                                "and (s.shift_end is False or is_fin(s.shift_end)))")
    M["oldcust"] = "lambda s: as_obj(oldf(s, 'cust'), 'Individual')"
    DP_PRE = [INV("shape(self)"), INV("net_ok(self)"), INV("float_clock(self)"), INV("dyn_ok(self)"),
              "self.priority_preempt is False or self.priority_preempt == 'resume' or self.priority_preempt == 'restart' "
              "or self.priority_preempt == 'resample' or self.priority_preempt == 'reroute'",
              INV("implies(self.dynamic_classes, forall_in(self.individuals, lambda q: forall_in(q, lambda i: has(i, 'class_change_date'))))")]
    DP_ON = ["not isinf(self.c) and not self.slotted and has(self, 'servers')",
             ("C11+C12+C14:there-is-a-server-to-take", "len(self.servers) > 0"),
             INV("servers_all_serving(self)"),
             ("C11:the-candidate-is-waiting-here", "waiting_here(self, individual)")]
    ON_ENS = [
        ("C11:no-priority-inversion-after-the-decision",
         "individual.server or forall_in(self.servers, lambda s: oldcust(s).priority_class <= individual.priority_class)"),
        ("C11:pre-empts-exactly-when-someone-of-strictly-lower-priority-is-in-service",
         "implies(individual.server, exists_in(self.servers, lambda s: oldcust(s).priority_class > individual.priority_class))"),
        ("C11:the-pre-emptor-holds-a-server-of-this-node", "implies(individual.server, is_obj(individual.server, 'Server') and as_obj(individual.server, 'Server') in self.servers)"),
        ("C11:the-victim-is-a-lowest-priority-customer-in-service",
         "implies(individual.server, forall_in(self.servers, lambda s: oldcust(s).priority_class <= oldcust(as_obj(individual.server, 'Server')).priority_class))"),
        ("C11:the-victim-is-the-most-recently-started-among-the-lowest-priority-customers-in-service",
         "implies(individual.server, forall_in(self.servers, lambda s: implies(oldcust(s).priority_class == oldcust(as_obj(individual.server, 'Server')).priority_class, "
         "oldf(oldcust(s), 'service_start_date') <= oldf(oldcust(as_obj(individual.server, 'Server')), 'service_start_date'))))"),
        ("C11:nothing-happens-when-nobody-of-lower-priority-is-in-service",
         "implies(not individual.server, same('server', 'cust', 'busy', 'service_start_date'))"),
        ("C11:only-the-victims-server-changes-hands",
         "implies(individual.server, forall_in(self.servers, lambda s: ref_eq(s, individual.server) or (ref_eq(s.cust, oldf(s, 'cust')) and s.busy and oldf(s, 'busy'))))"),
        ("C11:the-victim-waits-again-and-nobody-else-gains-or-loses-a-server",
         "implies(individual.server, not oldcust(as_obj(individual.server, 'Server')).server and ref_eq(loc(oldcust(as_obj(individual.server, 'Server'))), self) and "
         "forall_obj('Individual', lambda i: implies(ref_eq(loc(i), self) and not ref_eq(i, individual) and not ref_eq(i, oldcust(as_obj(individual.server, 'Server'))), "
         "ref_eq(i.server, oldf(i, 'server'))), trigger=lambda i: loc(i)))"),
    ]
    # checkpoints proved just before the call of preempt (and then available as lemmas): who is in the candidate list
    DP_LEMMAS = {"preempt": [
        ("C11:lemma-least-priority-is-the-maximum-in-service",
         "forall_in(self.servers, lambda s: as_obj(s.cust, 'Individual').priority_class <= least_priority) and individual_to_preempt.priority_class == least_priority "
         "and individual.priority_class < least_priority"),
        ("C11:lemma-every-lowest-priority-customer-in-service-is-a-candidate",
         "forall_in(self.servers, lambda s: implies(as_obj(s.cust, 'Individual').priority_class == least_priority, as_obj(s.cust, 'Individual') in least_prioritised_individuals))"),
        ("C11:lemma-the-victim-started-last-among-the-candidates",
         "forall_in(least_prioritised_individuals, lambda x: as_obj(x, 'Individual').service_start_date <= individual_to_preempt.service_start_date)"),
        ("C11:lemma-the-victim-is-in-service-on-one-of-the-servers",
         "is_obj(individual_to_preempt.server, 'Server') and as_obj(individual_to_preempt.server, 'Server') in self.servers "
         "and ref_eq(as_obj(individual_to_preempt.server, 'Server').cust, individual_to_preempt)"),
    ]}
    add(spec, "Node.decide_preempt", types={"individual": IND}, requires=DP_PRE, allocates=True, raises=[("ValueError", "True")], at_call=DP_LEMMAS,
        cases=[
            dict(name="off", when="self.priority_preempt is False", modifies=[], ensures=[]),
            dict(name="requeue", when="not (self.priority_preempt is False) and self.priority_preempt != 'reroute'", requires=DP_ON,
                 modifies=[f + "@lambda o: ref_eq(loc(o), self)" for f in ["service_start_date", "time_left", "service_time", "service_end_date",
                                                                            "original_service_time", "server", "class_change_date", "next_class"]]
                 + ["$seq[Records]"] + [f + "@S(self.servers)" for f in ["cust", "busy", "busy_time", "total_time", "next_end_service_date"]]
                 + ["next_class_change_date@self", "next_class_change_ind@self"],
                 ensures=ON_ENS + [("C04:one-out-one-in", "self.number_in_service == old(self.number_in_service)"),
                                   ("C09:the-candidate's-own-pending-class-change-is-untouched",
                                    "implies(old(has(individual, 'next_class')), has(individual, 'next_class') and individual.next_class == old(individual.next_class))")]),
            dict(name="reroute", when="self.priority_preempt == 'reroute'", requires=DP_ON, modifies=["*"], ensures=[]),
        ],
        props=["C11", "C04", "C14"])


def declare_class_change_event(spec):
    """the class-change-while-waiting event handler (C09 / C17 / C11 / C14)"""
    M = spec.macros
    CI = "as_obj(self.next_individual, 'Individual')"
    M["cc_cand_ok"] = ("lambda n, x: is_obj(x, 'Individual') and ref_eq(loc(as_obj(x, 'Individual')), n) and not as_obj(x, 'Individual').server "
                       "and has(as_obj(x, 'Individual'), 'next_class') and as_obj(x, 'Individual').next_class in n.simulation.network.customer_class_names "
                       "and cls_ok(n, as_obj(x, 'Individual')) and prev_prio_ok(n, as_obj(x, 'Individual')) "
                       "and as_obj(x, 'Individual') in n.individuals[as_obj(x, 'Individual').prev_priority_class] "
                       "and counted_class(as_obj(x, 'Individual')) == as_obj(x, 'Individual').previous_class "
                       "and has(as_obj(x, 'Individual'), 'class_change_date')")
    REQ = [INV("shape(self)"), INV("net_ok(self)"), INV("float_clock(self)"), INV("dyn_ok(self)"), "self.dynamic_classes is True",
           "not isinf(self.c) and has(self, 'servers')", INV("implies(self.slotted, self.c == 0)"), INV("len(self.servers) >= self.c"),
           INV("self.priority_preempt is False or self.priority_preempt == 'resume' or self.priority_preempt == 'restart' "
               "or self.priority_preempt == 'resample' or self.priority_preempt == 'reroute'"),
           INV("pop_fwd(self)"),
           INV("implies(self.dynamic_classes, forall_in(self.individuals, lambda q: forall_in(q, lambda i: has(i, 'class_change_date'))))"),
           ("C09:event-fires-for-a-waiting-customer-whose-class-change-is-due", "cc_cand_ok(self, self.next_individual)")]
    CHECK = [
        ("C09:the-customer-takes-the-class-that-was-drawn-for-it-and-its-priority-follows",
         f"{CI}.customer_class == old({CI}.next_class) and "
         f"{CI}.priority_class == self.simulation.network.priority_class_mapping[old({CI}.next_class)]"),
        ("C01+C08:it-is-filed-in-the-line-of-its-new-priority-class-exactly-once",
         f"ref_eq(loc({CI}), self) and {CI} in self.individuals[{CI}.priority_class]"),
        ("C17:the-tracker-is-told-with-the-class-it-counted-the-customer-under", f"counted_class({CI}) == {CI}.previous_class"),
    ]
    add(spec, "Node.change_customer_class_while_waiting", requires=REQ, allocates="any", raises=[("ValueError", "True")],
        expect_calls={"change_state_classchange": 1},
        # with the 'reroute' option the victim's departure is an unbounded cascade (modifies *): that it leaves the candidate's own class
        # bookkeeping alone is ASSUMED (listed), as are the node's structural invariants at that call boundary
        lemma_after={"decide_preempt": [
            f"implies(self.priority_preempt == 'reroute', has({CI}, 'next_class') and {CI}.next_class == old({CI}.next_class) "
            f"and {CI}.previous_class == old({CI}.previous_class) and counted_class({CI}) == old(counted_class({CI})) "
            f"and {CI}.customer_class == old({CI}.next_class) and cls_ok(self, {CI}) and shape(self) and dyn_ok(self) and ref_eq(self.next_individual, old(self.next_individual)) "
            f"and implies(self.dynamic_classes, forall_in(self.individuals, lambda q: forall_in(q, lambda i: has(i, 'class_change_date')))))"]},
        cases=[
            dict(name="no-reroute", when="self.priority_preempt != 'reroute'", modifies=["*"], at_call={"change_state_classchange": CHECK}, ensures=[]),
            dict(name="reroute", when="self.priority_preempt == 'reroute'", modifies=["*"], ensures=[]),
        ],
        props=["C09", "C17", "C11", "C14", "C01"])
