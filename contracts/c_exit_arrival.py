"""Contracts for ciw/exit_node.py and ciw/arrival_node.py."""
from . import add

IND = "obj:Individual"


def declare(spec):
    M = spec.macros
    add(spec, "ExitNode.accept",
        types={"next_individual": IND, "completed": "bool"},
        requires=[("C01:customer-is-nowhere", "loc(next_individual) is None")],
        modifies=["$seq@self.all_individuals", "number_of_individuals@self", "number_of_completed_individuals@self",
                  "loc@next_individual"],
        ensures=[
            ("C01:appended-once", "S(self.all_individuals) == append1(old(S(self.all_individuals)), next_individual)"),
            ("C01:count", "self.number_of_individuals == old(self.number_of_individuals) + 1"),
            ("C14:completed-count", "self.number_of_completed_individuals == old(self.number_of_completed_individuals) + (1 if completed else 0)"),
            ("C01:now-at-exit", "ref_eq(loc(next_individual), self)"),
        ],
        props=["C01", "C14"])
    for leaf in ["increment_time", "record_baulk", "record_rejection", "update_next_event_date"]:
        add(spec, "ArrivalNode." + leaf, inline=True)
    add(spec, "ExitNode.update_next_event_date", inline=True)

    # next arrival = the (node, class) stream with the smallest date; ties keep the first in dict order
    add(spec, "ArrivalNode.find_next_event_date",
        requires=["forall_in(self.event_dates_dict, lambda nd: forall_in(self.event_dates_dict[nd], lambda c: is_time(self.event_dates_dict[nd][c])))"],
        modifies=["next_node@self", "next_class@self", "next_event_date@self"],
        ensures=[
            ("C02+C10:next-arrival-is-the-minimum",
             "forall_in(self.event_dates_dict, lambda nd: forall_in(self.event_dates_dict[nd], lambda c: self.next_event_date <= self.event_dates_dict[nd][c]))"),
            ("C10:attained-by-next-stream",
             "implies(self.next_node is not None, self.next_node in self.event_dates_dict and self.next_class in self.event_dates_dict[self.next_node] "
             "and self.event_dates_dict[self.next_node][self.next_class] == self.next_event_date)"),
            ("none-iff-no-finite-date", "implies(self.next_node is None, isinf(self.next_event_date))"),
        ],
        loop_invariants={
            0: ["is_time(mindate)", "minnd is None or is_int(minnd)", "minclss is None or is_str(minclss)",
                "forall_int(lambda j: implies(0 <= j and j < _i, forall_in(self.event_dates_dict[_it[j]], lambda c: mindate <= self.event_dates_dict[_it[j]][c])), trigger=lambda j: _it[j])",
                "implies(minnd is not None, minnd in self.event_dates_dict and minclss in self.event_dates_dict[minnd] and self.event_dates_dict[minnd][minclss] == mindate)",
                "implies(minnd is None, isinf(mindate))"],
            1: ["is_time(mindate)", "minnd is None or is_int(minnd)", "minclss is None or is_str(minclss)",
                "forall_int(lambda j: implies(0 <= j and j < _i, mindate <= self.event_dates_dict[nd][_it[j]]), trigger=lambda j: _it[j])",
                "forall_int(lambda j: implies(0 <= j and j < _i0, forall_in(self.event_dates_dict[_it0[j]], lambda c: mindate <= self.event_dates_dict[_it0[j]][c])), trigger=lambda j: _it0[j])",
                "implies(minnd is not None, minnd in self.event_dates_dict and minclss in self.event_dates_dict[minnd] and self.event_dates_dict[minnd][minclss] == mindate)",
                "implies(minnd is None, isinf(mindate))"],
        },
        props=["C02", "C10"])
