"""Contracts for ciw/exit_node.py and ciw/arrival_node.py."""
from . import add

IND = "obj:Individual"


def declare(spec):
    M = spec.macros
    add(spec, "ExitNode.accept",
        types={"next_individual": IND, "completed": "bool"},
        requires=[("C01:customer-is-nowhere", "loc(next_individual) is None")],
        modifies=["$seq@self.all_individuals", "number_of_individuals@self", "number_of_completed_individuals@self",
                  "loc@next_individual"],
        ensures=[
            ("C01:appended-once", "S(self.all_individuals) == append1(old(S(self.all_individuals)), next_individual)"),
            ("C01:count", "self.number_of_individuals == old(self.number_of_individuals) + 1"),
            ("C14:completed-count", "self.number_of_completed_individuals == old(self.number_of_completed_individuals) + (1 if completed else 0)"),
            ("C01:now-at-exit", "ref_eq(loc(next_individual), self)"),
        ],
        props=["C01", "C14"])
    for leaf in ["increment_time", "record_baulk", "record_rejection", "update_next_event_date"]:
        add(spec, "ArrivalNode." + leaf, inline=True)
    add(spec, "ExitNode.update_next_event_date", inline=True)

    # next arrival = the (node, class) stream with the smallest date; ties keep the first in dict order
    add(spec, "ArrivalNode.find_next_event_date",
        requires=[__import__("contracts.c_node", fromlist=["INV"]).INV("forall_in(self.event_dates_dict, lambda nd: forall_in(self.event_dates_dict[nd], lambda c: is_time(self.event_dates_dict[nd][c])))")],
        modifies=["next_node@self", "next_class@self", "next_event_date@self"],
        ensures=[
            ("C02+C10:next-arrival-is-the-minimum",
             "forall_in(self.event_dates_dict, lambda nd: forall_in(self.event_dates_dict[nd], lambda c: self.next_event_date <= self.event_dates_dict[nd][c]))"),
            ("C10:attained-by-next-stream",
             "implies(self.next_node is not None, self.next_node in self.event_dates_dict and self.next_class in self.event_dates_dict[self.next_node] "
             "and self.event_dates_dict[self.next_node][self.next_class] == self.next_event_date)"),
            ("none-iff-no-finite-date", "implies(self.next_node is None, isinf(self.next_event_date))"),
        ],
        loop_invariants={
            0: ["is_time(mindate)", "minnd is None or is_int(minnd)", "minclss is None or is_str(minclss)",
                "forall_int(lambda j: implies(0 <= j and j < _i, forall_in(self.event_dates_dict[_it[j]], lambda c: mindate <= self.event_dates_dict[_it[j]][c])), trigger=lambda j: _it[j])",
                "implies(minnd is not None, minnd in self.event_dates_dict and minclss in self.event_dates_dict[minnd] and self.event_dates_dict[minnd][minclss] == mindate)",
                "implies(minnd is None, isinf(mindate))"],
            1: ["is_time(mindate)", "minnd is None or is_int(minnd)", "minclss is None or is_str(minclss)",
                "forall_int(lambda j: implies(0 <= j and j < _i, mindate <= self.event_dates_dict[nd][_it[j]]), trigger=lambda j: _it[j])",
                "forall_int(lambda j: implies(0 <= j and j < _i0, forall_in(self.event_dates_dict[_it0[j]], lambda c: mindate <= self.event_dates_dict[_it0[j]][c])), trigger=lambda j: _it0[j])",
                "implies(minnd is not None, minnd in self.event_dates_dict and minclss in self.event_dates_dict[minnd] and self.event_dates_dict[minnd][minclss] == mindate)",
                "implies(minnd is None, isinf(mindate))"],
        },
        props=["C02", "C10"])


def declare_arrivals(spec):
    from .c_node import INV
    M = spec.macros
    IND = "obj:Individual"
    M["arr_ok"] = ("lambda a: a.next_node is not None and a.next_class is not None and 1 <= a.next_node and a.next_node <= nnodes() "
                   "and a.simulation.network.number_of_nodes == nnodes() and len(a.simulation.nodes) == nnodes() + 2 "
                   "and a.next_class in a.simulation.network.customer_class_names "
                   "and 0 <= a.simulation.network.priority_class_mapping[a.next_class] "
                   "and a.simulation.network.priority_class_mapping[a.next_class] < a.simulation.number_of_priority_classes")
    M["full"] = ("lambda a, n: n.number_of_individuals >= n.node_capacity or "
                 "(a.simulation.nodes[0].number_of_individuals - 1) - a.simulation.nodes[len(a.simulation.nodes) - 1].number_of_individuals >= a.system_capacity")

    add(spec, "ArrivalNode.batch_size",
        types={"nd": "int", "clss": "str"}, returns="val", modifies=[], raises=[("ValueError", "True")],
        ensures=[("C10:batch-size-is-a-non-negative-integer", "is_intlike(result) and result >= 0")],
        props=["C10"])
    add(spec, "ArrivalNode.inter_arrival",
        types={"nd": "int", "clss": "str"},
        requires=["self.simulation.inter_arrival_times[nd][clss] is not None"],
        returns="fnum", modifies=[], raises=[("ValueError", "True")],
        ensures=[("C10:inter-arrival-sample-is-validated", "result >= 0")],
        props=["C10"])

    add(spec, "ArrivalNode.send_individual",
        types={"next_node": "obj:Node", "next_individual": IND},
        requires=["prio_ok(next_node, next_individual)", "cls_ok(next_node, next_individual)",
                  ("C01:customer-is-nowhere", "loc(next_individual) is None"), "not next_individual.server", ("C10:a-new-customer-has-a-clean-slate", "next_individual.service_time is False and next_individual.service_start_date is False and next_individual.service_end_date is False")],
        modifies=["*"], allocates="any", raises=[("ValueError", "True")],
        at_call={"accept": [
            ("C14:accepted-counter", "self.number_accepted_individuals == old(self.number_accepted_individuals) + 1"),
        ]},
        expect_calls={"accept": 1},
        props=["C01", "C14"])

    add(spec, "ArrivalNode.decide_baulk",
        types={"next_node": "obj:Node", "next_individual": IND},
        requires=["self.next_class is not None", "prio_ok(next_node, next_individual)", "cls_ok(next_node, next_individual)",
                  ("C01:customer-is-nowhere", "loc(next_individual) is None"), "not next_individual.server", ("C10:a-new-customer-has-a-clean-slate", "next_individual.service_time is False and next_individual.service_start_date is False and next_individual.service_end_date is False"),
                  INV("float_clock(next_node)"), "len(self.simulation.nodes) >= 2",
                  INV("cls_is(self.simulation.nodes[len(self.simulation.nodes) - 1], 'ExitNode')")],
        modifies=["*"], allocates="any", raises=[("ValueError", "True")],
        at_call={"accept": [
            ("C13:baulks-only-when-the-draw-is-below-the-baulking-probability",
             "rnd_num < baulk_probability(next_node.baulking_functions[self.next_class], next_node.number_of_individuals)"),
            ("C13:baulk-record-written-once",
             "len(next_individual.data_records) == old(len(next_individual.data_records)) + 1 "
             "and next_individual.data_records[len(next_individual.data_records) - 1].record_type == 'baulk' "
             "and next_individual.data_records[len(next_individual.data_records) - 1].node == next_node.id_number "
             "and next_individual.data_records[len(next_individual.data_records) - 1].arrival_date == next_node.now "
             "and next_individual.data_records[len(next_individual.data_records) - 1].exit_date == next_node.now "
             "and next_individual.data_records[len(next_individual.data_records) - 1].queue_size_at_arrival == next_node.number_of_individuals"),
        ], "send_individual": [
            ("C13:admitted-when-there-is-no-baulking-function-or-the-draw-is-not-below-the-probability",
             "next_node.baulking_functions[self.next_class] is None or "
             "not (rnd_num < baulk_probability(next_node.baulking_functions[self.next_class], next_node.number_of_individuals))"),
        ]},
        props=["C01", "C13"])

    add(spec, "ArrivalNode.release_individual",
        types={"next_node": "obj:Node", "next_individual": IND},
        requires=["self.next_class is not None", "prio_ok(next_node, next_individual)", "cls_ok(next_node, next_individual)",
                  ("C01:customer-is-nowhere", "loc(next_individual) is None"), "not next_individual.server", ("C10:a-new-customer-has-a-clean-slate", "next_individual.service_time is False and next_individual.service_start_date is False and next_individual.service_end_date is False"),
                  INV("float_clock(next_node)"), "len(self.simulation.nodes) >= 2",
                  INV("cls_is(self.simulation.nodes[len(self.simulation.nodes) - 1], 'ExitNode')")],
        modifies=["*"], allocates="any", raises=[("ValueError", "True")],
        at_call={"accept": [
            ("C06:rejected-only-when-the-node-or-the-system-is-full", "full(self, next_node)"),
            ("C06:rejection-record-shows-the-population-seen",
             "len(next_individual.data_records) == old(len(next_individual.data_records)) + 1 "
             "and next_individual.data_records[len(next_individual.data_records) - 1].record_type == 'rejection' "
             "and next_individual.data_records[len(next_individual.data_records) - 1].node == next_node.id_number "
             "and next_individual.data_records[len(next_individual.data_records) - 1].exit_date == next_node.now "
             "and next_individual.data_records[len(next_individual.data_records) - 1].queue_size_at_arrival == next_node.number_of_individuals"),
        ], "decide_baulk": [
            ("C06:admitted-only-when-neither-the-node-nor-the-system-is-full", "not full(self, next_node)"),
        ]},
        props=["C01", "C06"])

    add(spec, "ArrivalNode.have_event",
        requires=["arr_ok(self)", "self.simulation.inter_arrival_times[self.next_node][self.next_class] is not None",
                  "is_time(self.event_dates_dict[self.next_node][self.next_class]) and (is_fin(self.event_dates_dict[self.next_node][self.next_class]) "
                  "or is_pinf(self.event_dates_dict[self.next_node][self.next_class]))",
                  INV("forall_obj('Node', lambda m: len(m.individuals) == self.simulation.number_of_priority_classes and float_clock(m) "
                      "and ref_eq(m.simulation, self.simulation))"),
                  INV("forall_idx(self.simulation.transitive_nodes, lambda k, m: m.id_number == k + 1)"),
                  INV("cls_is(self.simulation.nodes[len(self.simulation.nodes) - 1], 'ExitNode')"),
                  INV("forall_in(self.event_dates_dict, lambda nd: forall_in(self.event_dates_dict[nd], lambda c: is_time(self.event_dates_dict[nd][c])))")],
        modifies=["*"], allocates="any", raises=[("ValueError", "True")],
        # consequences of I-CFG / the node invariants for the node the stream feeds (ASSUMED at the call)
        call_assumes={"release_individual": ["prio_ok(next_node, next_individual)", "cls_ok(next_node, next_individual)",
                                             "float_clock(next_node)"]},
        loop_invariants={0: [
            "arr_ok(self)", "self.next_node == old(self.next_node) and self.next_class == old(self.next_class) and ref_eq(self.system_capacity, old(self.system_capacity))",
            ("C01+C10:one-customer-created-per-batch-member", "self.number_of_individuals == old(self.number_of_individuals) + _i"),
            "len(self.simulation.nodes) == nnodes() + 2 and cls_is(self.simulation.nodes[len(self.simulation.nodes) - 1], 'ExitNode')",
            "self.simulation.inter_arrival_times[self.next_node][self.next_class] is not None",
            "ref_eq(self.event_dates_dict[self.next_node][self.next_class], old(self.event_dates_dict[self.next_node][self.next_class]))",
        ]},
        at_call={"release_individual": [
            ("C01:identifiers-are-consecutive", "next_individual.id_number == self.number_of_individuals"),
            ("C09:priority-follows-class", "next_individual.priority_class == self.simulation.network.priority_class_mapping[self.next_class] "
                                           "and next_individual.customer_class == self.next_class"),
            ("C03:first-node-recorded", "next_individual.starting_node == next_node.id_number"),
        ], "find_next_event_date": [
            ("C10:only-the-fired-stream-advances-by-one-validated-sample",
             "self.event_dates_dict[self.next_node][self.next_class] >= old(self.event_dates_dict[self.next_node][self.next_class])"),
        ]},
        expect_calls={"find_next_event_date": 1},
        props=["C01", "C03", "C06", "C09", "C10"])
