"""Contracts for ciw/trackers/state_tracker.py (C17): every change_state_* is the delta that keeps the tracked
state equal to the configuration.  Each method is verified for its own class; the node code calls trackers
through the class-level (assumed) contract of contracts/c_assumed.py, whose frame these contracts refine."""
from . import add
from .c_node import INV

NODE = "obj:Node"
DEST = "obj:Node|ExitNode"
IND = "obj:Individual"


def declare(spec):
    from .typesdecl import F
    K = spec.kinds
    from pyvc.types import parse as T
    K["TrackerState"] = T("int")
    K["TrackerRow"] = T("list:TrackerState")
    K["TrackerOrder"] = T("int")
    K["TrackerCell"] = T("list:TrackerOrder")          # MatrixBlocking: state[0][r][c] = list of blockage ranks
    K["TrackerCellRow"] = T("list:TrackerCell")
    K["TrackerCube"] = T("list:TrackerCellRow")
    F(spec, "SystemPopulation", state="int")
    F(spec, "NodePopulation", state="list:TrackerState")
    F(spec, "NodePopulationSubset", state="list:TrackerState")
    F(spec, "GroupedNodePopulation", state="list:TrackerState")
    F(spec, "NodeClassMatrix", state="list:TrackerRow", class_ordering="dict:ClassOrdering")
    F(spec, "NaiveBlocking", state="list:TrackerRow")
    M = spec.macros
    M["unit_vector_update"] = ("lambda lst, k, d: len(lst) == old(len(lst)) and lst[k] == old(lst[k]) + d and "
                               "forall_int(lambda j: implies(0 <= j and j < len(lst) and j != k, lst[j] == old(lst[j])), trigger=lambda j: lst[j])")

    # ---- SystemPopulation
    add(spec, "SystemPopulation.change_state_accept", refines="StateTracker.change_state_accept", types={"node": NODE, "ind": IND}, modifies=["state@self"],
        ensures=[("C17:one-more-in-the-system", "self.state == old(self.state) + 1")], props=["C17"])
    add(spec, "SystemPopulation.change_state_release", refines="StateTracker.change_state_release", types={"node": NODE, "destination": DEST, "ind": IND, "blocked": "bool"},
        modifies=["state@self"], ensures=[("C17:one-fewer-in-the-system", "self.state == old(self.state) - 1")], props=["C17"])
    add(spec, "SystemPopulation.change_state_block", refines="StateTracker.change_state_block", types={"node": NODE, "destination": NODE, "ind": IND}, modifies=[],
        ensures=[], props=["C17"])

    # ---- NodePopulation
    NP_REQ = ["1 <= node.id_number and node.id_number <= len(self.state)"]
    add(spec, "NodePopulation.change_state_accept", refines="StateTracker.change_state_accept", types={"node": NODE, "ind": IND}, requires=NP_REQ,
        modifies=["$seq@self.state"],
        ensures=[("C17:one-more-at-that-node-only", "unit_vector_update(self.state, node.id_number - 1, 1)")], props=["C17"])
    add(spec, "NodePopulation.change_state_release", refines="StateTracker.change_state_release", types={"node": NODE, "destination": DEST, "ind": IND, "blocked": "bool"},
        requires=NP_REQ, modifies=["$seq@self.state"],
        ensures=[("C17:one-fewer-at-that-node-only", "unit_vector_update(self.state, node.id_number - 1, -1)")], props=["C17"])

    # ---- NaiveBlocking: state[n] = [not blocked, blocked]
    NB_REQ = ["1 <= node.id_number and node.id_number <= len(self.state)",
              "len(self.state[node.id_number - 1]) == 2",
              "forall_int(lambda a: forall_int(lambda b: implies(0 <= a and a < b and b < len(self.state), not ref_eq(self.state[a], self.state[b]))))"]
    add(spec, "NaiveBlocking.change_state_accept", refines="StateTracker.change_state_accept", types={"node": NODE, "ind": IND}, requires=NB_REQ,
        modifies=["$seq@self.state[node.id_number - 1]"],
        ensures=[("C17:one-more-unblocked-customer-at-that-node",
                  "self.state[node.id_number - 1][0] == old(self.state[node.id_number - 1][0]) + 1 and "
                  "self.state[node.id_number - 1][1] == old(self.state[node.id_number - 1][1]) and len(self.state[node.id_number - 1]) == 2")],
        props=["C17"])
    add(spec, "NaiveBlocking.change_state_block", refines="StateTracker.change_state_block", types={"node": NODE, "destination": NODE, "ind": IND}, requires=NB_REQ,
        modifies=["$seq@self.state[node.id_number - 1]"],
        ensures=[("C17:one-customer-of-that-node-turns-from-unblocked-to-blocked",
                  "self.state[node.id_number - 1][0] == old(self.state[node.id_number - 1][0]) - 1 and "
                  "self.state[node.id_number - 1][1] == old(self.state[node.id_number - 1][1]) + 1 and len(self.state[node.id_number - 1]) == 2")],
        props=["C17"])
    add(spec, "NaiveBlocking.change_state_release", refines="StateTracker.change_state_release", types={"node": NODE, "destination": DEST, "ind": IND, "blocked": "bool"},
        requires=NB_REQ, modifies=["$seq@self.state[node.id_number - 1]"],
        ensures=[("C17:the-count-the-customer-was-in-goes-down",
                  "self.state[node.id_number - 1][0] == old(self.state[node.id_number - 1][0]) - (0 if blocked else 1) and "
                  "self.state[node.id_number - 1][1] == old(self.state[node.id_number - 1][1]) - (1 if blocked else 0) "
                  "and len(self.state[node.id_number - 1]) == 2")],
        props=["C17"])

    # ---- NodeClassMatrix: state[n][class index]
    NCM_REQ = ["1 <= node.id_number and node.id_number <= len(self.state)",
               "forall_int(lambda a: forall_int(lambda b: implies(0 <= a and a < b and b < len(self.state), not ref_eq(self.state[a], self.state[b]))))"]

    def ncm_idx(cls_expr):
        return f"self.class_ordering[{cls_expr}]"
    add(spec, "NodeClassMatrix.change_state_accept", refines="StateTracker.change_state_accept", types={"node": NODE, "ind": IND},
        requires=NCM_REQ + [f"0 <= {ncm_idx('ind.customer_class')} and {ncm_idx('ind.customer_class')} < len(self.state[node.id_number - 1])"],
        modifies=["$seq@self.state[node.id_number - 1]", "counted_class@ind"],
        ghost_updates=[("counted_class", "ind", "ind.customer_class")],
        ensures=[("C17:one-more-of-the-customers-class-at-that-node",
                  f"unit_vector_update(self.state[node.id_number - 1], {ncm_idx('ind.customer_class')}, 1)"),
                 ("C17:counted-under-its-current-class", "counted_class(ind) == ind.customer_class")], props=["C17"])
    add(spec, "NodeClassMatrix.change_state_classchange", refines="StateTracker.change_state_classchange", types={"node": NODE, "ind": IND},
        requires=NCM_REQ + [f"0 <= {ncm_idx('ind.customer_class')} and {ncm_idx('ind.customer_class')} < len(self.state[node.id_number - 1])",
                            f"0 <= {ncm_idx('ind.previous_class')} and {ncm_idx('ind.previous_class')} < len(self.state[node.id_number - 1])",
                            f"{ncm_idx('ind.previous_class')} != {ncm_idx('ind.customer_class')}",
                            ("C17:tracker-protocol-previous_class-is-the-class-the-customer-is-counted-under", "counted_class(ind) == ind.previous_class")],
        modifies=["$seq@self.state[node.id_number - 1]", "counted_class@ind"],
        ghost_updates=[("counted_class", "ind", "ind.customer_class")],
        ensures=[("C17:the-customer-moves-from-the-class-it-was-counted-under-to-its-new-one",
                  f"self.state[node.id_number - 1][{ncm_idx('ind.customer_class')}] == old(self.state[node.id_number - 1][{ncm_idx('ind.customer_class')}]) + 1 and "
                  f"self.state[node.id_number - 1][self.class_ordering[old(counted_class(ind))]] == old(self.state[node.id_number - 1][self.class_ordering[counted_class(ind)]]) - 1 "
                  f"and len(self.state[node.id_number - 1]) == old(len(self.state[node.id_number - 1])) and "
                  f"forall_int(lambda j: implies(0 <= j and j < len(self.state[node.id_number - 1]) and j != {ncm_idx('ind.customer_class')} and j != {ncm_idx('ind.previous_class')}, "
                  f"self.state[node.id_number - 1][j] == old(self.state[node.id_number - 1][j])), trigger=lambda j: self.state[node.id_number - 1][j])"),
                 ("C17:counted-under-its-current-class", "counted_class(ind) == ind.customer_class")],
        props=["C17"])
    add(spec, "NodeClassMatrix.change_state_release", refines="StateTracker.change_state_release",
        types={"node": NODE, "destination": DEST, "ind": IND, "blocked": "bool"},
        requires=NCM_REQ + [("C17:tracker-protocol-previous_class-is-the-class-the-customer-is-counted-under", "counted_class(ind) == ind.previous_class"),
                            f"0 <= {ncm_idx('ind.previous_class')} and {ncm_idx('ind.previous_class')} < len(self.state[node.id_number - 1])"],
        modifies=["$seq@self.state[node.id_number - 1]", "counted_class@ind"],
        ghost_updates=[("counted_class", "ind", "None")],
        ensures=[("C17:one-fewer-of-the-class-the-customer-was-counted-under-at-that-node",
                  f"unit_vector_update(self.state[node.id_number - 1], self.class_ordering[old(counted_class(ind))], -1)"),
                 ("C17:no-longer-counted", "counted_class(ind) is None")], props=["C17"])

    # ---- NodePopulationSubset: state[k] = population of node observed_nodes[k] + 1
    F(spec, "NodePopulationSubset", observed_nodes="list:IntList")
    NPS_REQ = [INV("len(self.state) == len(self.observed_nodes)")]
    for meth, d, params in [("change_state_accept", 1, {"node": NODE, "ind": IND}),
                            ("change_state_release", -1, {"node": NODE, "destination": DEST, "ind": IND, "blocked": "bool"})]:
        add(spec, "NodePopulationSubset." + meth, refines="StateTracker." + meth, types=params, requires=NPS_REQ,
            modifies=["$seq@self.state"],
            ensures=[("C17:the-count-of-an-observed-node-moves-by-one",
                      f"implies((node.id_number - 1) in self.observed_nodes, unit_vector_update(self.state, index_of(S(self.observed_nodes), node.id_number - 1), {d}))"),
                     ("C17:an-unobserved-node-changes-nothing",
                      "implies(not ((node.id_number - 1) in self.observed_nodes), S(self.state) == old(S(self.state)))"),
                     "len(self.state) == len(self.observed_nodes)"],
            props=["C17"])

    # ---- GroupedNodePopulation: state[g] = population of the nodes of group g
    K["Groups"] = T("list:IntList")
    F(spec, "GroupedNodePopulation", observed_nodes="list:IntList", groups="list:Groups")
    GNP_REQ = [INV("len(self.state) == len(self.groups)"),
               INV("forall_int(lambda v: iff(v in self.observed_nodes, exists_int(lambda g: 0 <= g and g < len(self.groups) and v in self.groups[g], "
                   "trigger=lambda g: self.groups[g])), trigger=lambda v: v in self.observed_nodes)")]
    for meth, d, params in [("change_state_accept", 1, {"node": NODE, "ind": IND}),
                            ("change_state_release", -1, {"node": NODE, "destination": DEST, "ind": IND, "blocked": "bool"})]:
        add(spec, "GroupedNodePopulation." + meth, refines="StateTracker." + meth, types=params, requires=GNP_REQ,
            modifies=["$seq@self.state"], allocates=True,
            ensures=[("C17:the-count-of-the-first-group-holding-the-node-moves-by-one",
                      "implies((node.id_number - 1) in self.observed_nodes, exists_int(lambda g: 0 <= g and g < len(self.groups) and "
                      "(node.id_number - 1) in self.groups[g] and forall_int(lambda h: implies(0 <= h and h < g, not ((node.id_number - 1) in self.groups[h])), trigger=lambda h: self.groups[h]) "
                      f"and unit_vector_update(self.state, g, {d}), trigger=lambda g: self.groups[g]))"),
                     ("C17:a-node-in-no-group-changes-nothing",
                      "implies(not ((node.id_number - 1) in self.observed_nodes), S(self.state) == old(S(self.state)))"),
                     "len(self.state) == len(self.groups)"],
            props=["C17"])

    # ---- the history: one entry per state change, non-decreasing timestamps (inherited by every tracker)
    M["history_ok"] = ("lambda t: len(t.history) >= 1 and "
                       "forall_int(lambda k: implies(0 <= k and k < len(t.history), len(t.history[k]) == 2 and is_time(t.history[k][0]) "
                       "and t.history[k][0] <= t.simulation.current_time), trigger=lambda k: t.history[k]) and "
                       "forall_int(lambda k: implies(1 <= k and k < len(t.history), t.history[k - 1][0] <= t.history[k][0] "
                       "and t.history[k - 1][1] != t.history[k][1]), trigger=lambda k: t.history[k])")
    add(spec, "StateTracker.timestamp",
        requires=[INV("history_ok(self)")],
        modifies=["$seq@self.history"], allocates=True,
        ensures=[("C17:history-lists-each-state-change-once-with-non-decreasing-timestamps", "history_ok(self)"),
                 ("C17:history-is-current", "self.history[len(self.history) - 1][1] == self.hash_state()"),
                 ("C17:an-entry-is-added-exactly-when-the-state-changed",
                  "len(self.history) == old(len(self.history)) + (0 if old(self.history[len(self.history) - 1][1]) == self.hash_state() else 1)"),
                 ("C17:earlier-entries-are-kept", "forall_int(lambda k: implies(0 <= k and k < old(len(self.history)), ref_eq(self.history[k], old(self.history[k]))), trigger=lambda k: self.history[k])"),
                 ("C17:a-new-entry-carries-the-current-time",
                  "implies(len(self.history) > old(len(self.history)), self.history[len(self.history) - 1][0] == self.simulation.current_time)")],
        props=["C17"])

    # ---- MatrixBlocking: state = [matrix of blockage ranks, node populations]
    K["MBState"] = T("list:TrackerCellRow2 || list:TrackerState")
    K["TrackerCellRow2"] = T("list:TrackerCellRow")
    F(spec, "MatrixBlocking", state="list:MBState", increment="int")
    M["mb_ok"] = ("lambda t: len(t.state) == 2 and is_list(t.state[0], 'TrackerCellRow2') and is_list(t.state[1], 'TrackerState') "
                  "and len(as_list(t.state[1], 'TrackerState')) == nnodes() and len(as_list(t.state[0], 'TrackerCellRow2')) == nnodes()")
    add(spec, "MatrixBlocking.change_state_accept", refines="StateTracker.change_state_accept", types={"node": NODE, "ind": IND},
        requires=[INV("mb_ok(self)"), "1 <= node.id_number and node.id_number <= nnodes()"],
        modifies=["$seq@as_list(self.state[1], 'TrackerState')"],
        ensures=[("C17:one-more-at-that-node-only", "unit_vector_update(as_list(self.state[1], 'TrackerState'), node.id_number - 1, 1)")],
        props=["C17"])

    M["mb_cell"] = "lambda t, r, c: as_list(t.state[0], 'TrackerCellRow2')[r][c]"
    add(spec, "MatrixBlocking.change_state_block", refines="StateTracker.change_state_block", types={"node": NODE, "destination": NODE, "ind": IND},
        requires=[INV("mb_ok(self)"), "1 <= node.id_number and node.id_number <= nnodes()", "1 <= destination.id_number and destination.id_number <= nnodes()",
                  INV("forall_int(lambda r: implies(0 <= r and r < nnodes(), len(as_list(self.state[0], 'TrackerCellRow2')[r]) == nnodes()), "
                      "trigger=lambda r: as_list(self.state[0], 'TrackerCellRow2')[r])")],
        modifies=["$seq@mb_cell(self, node.id_number - 1, destination.id_number - 1)", "increment@self"],
        ensures=[("C17:the-new-blockage-gets-the-next-rank-in-the-cell-of-that-pair-of-nodes",
                  "S(mb_cell(self, node.id_number - 1, destination.id_number - 1)) == "
                  "append1(old(S(mb_cell(self, node.id_number - 1, destination.id_number - 1))), old(self.increment))"),
                 ("C17:ranks-advance-by-one", "self.increment == old(self.increment) + 1")],
        props=["C17"])

    # ---- initialise: the base case of the tracker invariants (state of an empty system, a one-entry history)
    SIM = {"simulation": "obj:Simulation"}
    INIT_REQ = ["is_time(simulation.current_time) and is_fin(simulation.current_time)", "simulation.network.number_of_nodes == nnodes() and nnodes() >= 1"]
    add(spec, "SystemPopulation.initialise", types=SIM, requires=INIT_REQ,
        modifies=["simulation@self", "state@self", "history@self"], allocates=True,
        ensures=[("C17:an-empty-system-is-tracked-as-empty", "self.state == 0 and ref_eq(self.simulation, simulation)"),
                 ("C17:the-history-starts-with-one-entry-at-the-current-time",
                  "len(self.history) == 1 and len(self.history[0]) == 2 and self.history[0][0] == simulation.current_time")],
        props=["C17"])
    add(spec, "NodePopulation.initialise", types=SIM, requires=INIT_REQ,
        modifies=["simulation@self", "state@self", "history@self"], allocates=True,
        ensures=[("C17:an-empty-system-is-tracked-as-empty",
                  "len(self.state) == nnodes() and forall_in(self.state, lambda v: v == 0) and ref_eq(self.simulation, simulation)"),
                 ("C17:the-history-starts-with-one-entry-at-the-current-time",
                  "len(self.history) == 1 and len(self.history[0]) == 2 and self.history[0][0] == simulation.current_time")],
        props=["C17"])
    add(spec, "NaiveBlocking.initialise", types=SIM, requires=INIT_REQ,
        modifies=["simulation@self", "state@self", "history@self"], allocates=True,
        ensures=[("C17:an-empty-system-is-tracked-as-empty-with-one-row-of-its-own-per-node",
                  "len(self.state) == nnodes() and forall_in(self.state, lambda row: len(row) == 2 and row[0] == 0 and row[1] == 0) and "
                  "forall_int(lambda a: forall_int(lambda b: implies(0 <= a and a < b and b < len(self.state), not ref_eq(self.state[a], self.state[b]))))"),
                 ("C17:the-history-starts-with-one-entry-at-the-current-time",
                  "len(self.history) == 1 and len(self.history[0]) == 2 and self.history[0][0] == simulation.current_time")],
        props=["C17"])

    add(spec, "NodePopulationSubset.initialise", types=SIM, requires=INIT_REQ + ["len(self.observed_nodes) >= 0"],
        modifies=["simulation@self", "state@self", "history@self"], allocates=True,
        ensures=[("C17:an-empty-system-is-tracked-as-empty",
                  "len(self.state) == len(self.observed_nodes) and forall_in(self.state, lambda v: v == 0)"),
                 ("C17:the-history-starts-with-one-entry-at-the-current-time",
                  "len(self.history) == 1 and len(self.history[0]) == 2 and self.history[0][0] == simulation.current_time")],
        props=["C17"])
    add(spec, "GroupedNodePopulation.initialise", types=SIM, requires=INIT_REQ + ["len(self.groups) >= 0"],
        modifies=["simulation@self", "state@self", "history@self"], allocates=True,
        ensures=[("C17:an-empty-system-is-tracked-as-empty",
                  "len(self.state) == len(self.groups) and forall_in(self.state, lambda v: v == 0)"),
                 ("C17:the-history-starts-with-one-entry-at-the-current-time",
                  "len(self.history) == 1 and len(self.history[0]) == 2 and self.history[0][0] == simulation.current_time")],
        props=["C17"])

    # ---- a blockage moves nobody: the population trackers leave their state alone when a customer becomes blocked
    for cls_ in ["NodePopulation", "NodePopulationSubset", "GroupedNodePopulation", "NodeClassMatrix"]:
        add(spec, cls_ + ".change_state_block", refines="StateTracker.change_state_block", types={"node": NODE, "destination": NODE, "ind": IND},
            modifies=[], ensures=[], props=["C17"])

    # ---- the ghost protocol of contracts/c_assumed.py is tracker-independent: every refinement performs the same ghost
    # statement and re-proves the class-level postcondition (so each built-in tracker is checked to refine it)
    for key, c in list(spec.contracts.items()):
        if not (c.refines or "").startswith("StateTracker.") or c.ghost_updates:
            continue
        meth = key.split(".")[1]
        if meth in ("change_state_accept", "change_state_classchange"):
            c.ghost_updates.append(("counted_class", "ind", "ind.customer_class"))
            c.ensures.append(("C17:counted-under-its-current-class", "counted_class(ind) == ind.customer_class"))
            c.modifies.append("counted_class@ind")
        elif meth in ("change_state_release", "change_state_renege"):
            c.ghost_updates.append(("counted_class", "ind", "None"))
            c.ensures.append(("C17:no-longer-counted", "counted_class(ind) is None"))
            c.modifies.append("counted_class@ind")

    # ---- reneging: StateTracker.change_state_renege is inherited by every tracker and must be the release delta of that tracker
    # (a reneging customer leaves the tracked state exactly like a departing one); verified once per receiver class
    REN = {"node": NODE, "destination": DEST, "ind": IND, "blocked": "bool"}
    for rc in ["SystemPopulation", "NodePopulation", "NodePopulationSubset", "GroupedNodePopulation", "NodeClassMatrix", "NaiveBlocking"]:
        src = spec.contracts[rc + ".change_state_release"]
        add(spec, rc + "::StateTracker.change_state_renege", types=REN, requires=list(src.requires), modifies=list(src.modifies),
            allocates=bool(getattr(src, "allocates", False)), ghost_updates=[],
            ensures=[(lab.replace("C17:", "C17:renege-as-release:"), e) if isinstance(x, tuple) else x
                     for x in src.ensures for (lab, e) in [x if isinstance(x, tuple) else ("", x)]],
            expect_calls={"change_state_release": 1}, props=["C17"])
