"""Field types of the typed heap (type invariants: assumed when a field is read, proved when it
is written) and list / dict kinds."""
from pyvc.types import parse as T


def F(spec, cls, **fields):
    for name, ty in fields.items():
        spec.fields[(cls, name)] = T(ty)


def declare(spec):
    K = spec.kinds
    K["Any"] = T("val")
    K["Local"] = None
