"""Field types of the typed heap (type invariants: assumed when a field is read, proved when it
is written) and list / dict kinds.  Derived from the __init__ methods and every store site in
/repo/ciw; a store that does not fit its declared type is a failed `type` obligation."""
from pyvc.types import parse as T

NODE = "obj:Node"                       # Node, ExactNode, PSNode
ANYNODE = "obj:ArrivalNode|Node|ExitNode"
SERVICE_OR_EXIT = "obj:Node|ExitNode"
SERVTIME = "date || str || bool"    # a validated sample may be a bool (isinstance(True, int))                # False | number | 'resume' / 'restart' / 'resample' / 'reroute'


def F(spec, cls, **fields):
    for name, ty in fields.items():
        spec.fields[(cls, name)] = T(ty)


def declare(spec):
    K = spec.kinds
    K["Any"] = T("val")
    K["Local"] = None
    # ---- list kinds: element types
    K["IndQ"] = T("obj:Individual")          # one priority line of a node
    K["IndOuter"] = T("list:IndQ")           # Node.individuals
    K["Servers"] = T("obj:Server")
    K["BlockedQ"] = T("tup2:int,int")        # (node id, individual id)
    K["Interrupted"] = T("obj:Individual")
    K["ExitList"] = T("obj:Individual")
    K["Records"] = T("rec")
    K["NumList"] = T("num")
    K["IntList"] = T("int")
    K["StrList"] = T("str")
    K["TNodes"] = T(NODE)
    K["Nodes"] = T(ANYNODE)
    K["ActiveNodes"] = T("obj:ArrivalNode|Node")
    K["Centres"] = T("obj:ServiceCentre")
    K["DistList"] = T("opt:obj:Distribution")
    K["FnList"] = T("opt:fn")
    K["Route"] = T("val")
    K["History"] = T("list:HistEntry")
    K["HistEntry"] = T("val")
    K["NodeRouters"] = T("obj:NodeRouting")
    K["NodeTypes"] = T("fn")
    K["IntListState"] = T("int")
    K["IntMatrix"] = T("list:IntListState")
    # ---- dict kinds: (key type, value type)
    K["PNE"] = (T("str"), T("tup2:val,time"))           # possible_next_events
    K["Baulk"] = (T("str"), T("opt:fn"))
    K["ClassChange"] = (T("str"), T("dict:ClassChangeRow"))
    K["ClassChangeRow"] = (T("str"), T("num"))
    K["PrioMap"] = (T("str"), T("int"))
    K["CClasses"] = (T("str"), T("obj:CustomerClass"))
    K["CCTD"] = (T("str"), T("opt:obj:Distribution"))
    K["ServDistByNode"] = (T("int"), T("dict:ServDistByClass"))       # Simulation.service_times: never None (I-CFG)
    K["ServDistByClass"] = (T("str"), T("obj:Distribution"))
    K["DistByNode"] = (T("int"), T("dict:DistByClass"))
    K["DistByClass"] = (T("str"), T("opt:obj:Distribution"))
    K["CountByClass"] = (T("str"), T("int"))
    K["EvDates"] = (T("int"), T("dict:EvDatesRow"))
    K["EvDatesRow"] = (T("str"), T("date"))
    K["Routers"] = (T("str"), T("obj:NetworkRouting"))
    K["Times"] = (T("val"), T("num"))
    K["ClassOrdering"] = (T("str"), T("int"))

    F(spec, "Simulation",
      current_time="time", network="obj:Network", NodeTypes="list:NodeTypes", ArrivalNodeType="fn",
      ExitNodeType="fn", IndividualType="fnconst:Individual", ServerType="fnconst:Server", name="str",
      deadlock_detector="obj:NoDetection", inter_arrival_times="dict:DistByNode",
      service_times="dict:ServDistByNode", batch_sizes="dict:ServDistByNode", number_of_priority_classes="int",
      transitive_nodes="list:TNodes", nodes="list:Nodes", active_nodes="list:ActiveNodes",
      routers="dict:Routers", statetracker="obj:StateTracker", times_dictionary="dict:Times",
      times_to_deadlock="dict:Times", unchecked_blockage="bool", progress_bar="val", all_records="val")

    F(spec, "Node",
      simulation="obj:Simulation", server_priority_function="opt:fn", service_discipline="fn",
      next_event_type="opt:str", schedule="opt:obj:Schedule", c="intinf", slotted="bool",
      next_event_date="time", next_shift_change="time", node_capacity="intinf",
      class_change="opt:dict:ClassChange", individuals="list:IndOuter", number_of_individuals="int",
      number_in_service="int", id_number="int", baulking_functions="dict:Baulk", overtime="list:NumList",
      blocked_queue="list:BlockedQ", len_blocked_queue="int", servers="list:Servers", highest_id="intinf",
      priority_preempt="orfalse:str", interrupted_individuals="list:Interrupted",
      number_interrupted_individuals="int", all_servers_total="list:NumList", all_servers_busy="list:NumList",
      reneging="bool", dynamic_classes="bool", next_class_change_date="time", next_individual="val",
      next_class_change_ind="opt:obj:Individual", possible_next_events="dict:PNE",
      server_utilisation="opt:num")
    F(spec, "PSNode", last_occupancy="int", ps_threshold="int", ps_capacity="intinf", date_last_update="num")

    F(spec, "Individual",
      arrival_date="date", service_start_date="date", service_time=SERVTIME, service_end_date="date",
      exit_date="date", id_number="int", data_records="list:Records", customer_class="str",
      previous_class="str", priority_class="int", prev_priority_class="int", original_class="str",
      is_blocked="bool", server="bool || obj:Server", queue_size_at_arrival="date",
      queue_size_at_departure="date", destination="date", interrupted="bool", node="date", simulation="val",
      reneging_date="time", class_change_date="time", next_class="str", time_left="time",
      original_service_time=SERVTIME, original_service_start_date="date", with_server="bool",
      date_last_update="num", route="list:Route", starting_node="int")

    F(spec, "Server",
      node=NODE, id_number="int", cust="orfalse:obj:Individual", busy="bool", offduty="bool", all_time="val",
      start_date="num", busy_time="num", total_time="date", shift_end="date", next_end_service_date="time")

    F(spec, "ArrivalNode",
      simulation="obj:Simulation", number_of_individuals="int", number_of_individuals_per_class="dict:CountByClass",
      number_accepted_individuals="int", number_accepted_individuals_per_class="dict:CountByClass",
      system_capacity="intinf", event_dates_dict="dict:EvDates", next_node="opt:int", next_class="opt:str",
      next_event_date="time")

    F(spec, "ExitNode",
      all_individuals="list:ExitList", number_of_individuals="int", number_of_completed_individuals="int",
      id_number="int", next_event_date="time", node_capacity="intinf")

    F(spec, "Schedule",
      schedule_type="str", shift_end_dates="list:NumList", numbers_of_servers="list:IntList",
      preemption="orfalse:str", cyclelength="num", offset="time", c="int", next_shift_change_date="time",
      next_c="int", schedule_generator="gen:Sched")
    F(spec, "Slotted",
      slots="list:NumList", slot_sizes="list:IntList", next_slot_sizes="list:IntList", capacitated="bool",
      next_slot_date="time", slot_size="int")

    F(spec, "Network",
      service_centres="list:Centres", customer_classes="dict:CClasses", number_of_nodes="int",
      number_of_classes="int", customer_class_names="list:StrList", number_of_priority_classes="int",
      priority_class_mapping="dict:PrioMap", system_capacity="intinf")
    F(spec, "ServiceCentre",
      number_of_servers="intinf || obj:Schedule", queueing_capacity="intinf",
      class_change_matrix="opt:dict:ClassChange", priority_preempt="orfalse:str", ps_threshold="int",
      server_priority_function="opt:fn", service_discipline="fn", class_change_time="bool", reneging="bool")
    F(spec, "CustomerClass",
      arrival_distributions="list:DistList", service_distributions="list:DistList",
      batching_distributions="list:DistList", routing="obj:NetworkRouting", priority_class="int",
      baulking_functions="list:FnList", reneging_time_distributions="list:DistList",
      class_change_time_distributions="dict:CCTD")

    F(spec, "StateTracker", simulation="obj:Simulation", state="val", history="list:History")
    F(spec, "MatrixBlocking", increment="int")
    F(spec, "NodePopulationSubset", observed_nodes="list:IntList")
    F(spec, "GroupedNodePopulation", observed_nodes="list:IntList", groups="list:Any")
    F(spec, "NodeClassMatrix", class_ordering="val")

    F(spec, "NetworkRouting", routers="list:NodeRouters", simulation="obj:Simulation")
    F(spec, "ProcessBased", route_function="fn")
    F(spec, "FlexibleProcessBased", rule="str", choice="str")
    F(spec, "NodeRouting", simulation="obj:Simulation", node="opt:" + NODE)
    F(spec, "Probabilistic", destinations="list:IntList", probs="list:NumList")
    F(spec, "Direct", to="int")
    F(spec, "JoinShortestQueue", destinations="list:IntList", tie_break="str")
    F(spec, "Cycle", cycle="list:IntList", generator="gen:Cycle")

    F(spec, "Distribution", simulation="val")
    F(spec, "StateDigraph", statedigraph="val")

    # I-CFG (assumed, listed in every evidence file that relies on it): configuration dictionaries are total over
    # the classes / nodes they are indexed with, per-node configuration lists have one entry per node
    spec.total_dicts |= {"Baulk", "ClassChange", "ClassChangeRow", "PrioMap", "CClasses", "CCTD", "DistByNode", "DistByClass", "ServDistByNode", "ServDistByClass",
                         "CountByClass", "EvDates", "EvDatesRow", "Routers", "ClassOrdering"}
    spec.per_node_lists |= {"DistList", "FnList", "Centres", "TNodes", "NodeRouters"}

    # attributes created by an initialise() step that Simulation.__init__ / Node.__init__ always runs
    # (not by the class's own __init__); their presence afterwards is assumed (I-DEF), and listed
    for cls, names in {
        "ArrivalNode": ["next_event_date", "next_node", "next_class"],
        "Schedule": ["c", "next_shift_change_date", "next_c", "schedule_generator"],
        "Slotted": ["next_slot_date", "slot_size", "schedule_generator"],
        "StateTracker": ["simulation", "state", "history"],
        "MatrixBlocking": ["increment"],
        "NetworkRouting": ["simulation"],
        "NodeRouting": ["simulation", "node"],
        "Distribution": ["simulation"],
        "ServiceCentre": ["reneging"],      # set for every service centre by Network.__init__
    }.items():
        for n in names:
            spec.lazy_ok.add((cls, n))
