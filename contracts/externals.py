"""Assumed models of externals and of calls through function values (the trusted base; every
entry of TRUSTED is copied into the evidence files)."""
import ast
import z3
from pyvc import smt, calls
from pyvc.smt import Val, Seq, Len, At, Contains
from pyvc.symexec import SV, Exc, Unsupported, fresh, R, I
from pyvc.types import parse as T

TRUSTED = []

SPF = z3.Function("ServerPriority", Val, smt.I, smt.I, Val)       # server_priority_function(srv, ind)
BaulkP = z3.Function("BaulkProbability", Val, smt.I, Val)         # baulking function(population)


def ext_random(ex, st, pos, kw, node):
    r = fresh("rnd", R)
    st.assume(z3.And(r >= 0, r < 1))
    return [(st, SV("val", Val.realv(r), T("num")))]


def fnvalue(ex, st, fv, pos, kw, node):
    f = node.func
    attr = f.attr if isinstance(f, ast.Attribute) else None
    if attr == "service_discipline":
        out = []
        for name in ("FIFO", "LIFO", "SIRO", None):
            s2 = st.copy()
            if name is not None:
                cond = fv.t == Val.fnv(ex.S.fn_id(name))
            else:
                cond = z3.And([fv.t != Val.fnv(ex.S.fn_id(n)) for n in ("FIFO", "LIFO", "SIRO")])
            if not ex.noprune and not ex.feasible(s2, cond):
                continue
            s2.assume(cond)
            if name is not None:
                out.extend(calls.call_function(ex, s2, ex.P.functions[name], None, pos, kw, node))
            else:
                # a user-supplied discipline: assumed to return a member of the list it is given
                ex.assumed_used.add("custom service_discipline returns a member of its argument and writes nothing")
                sq = ex.seq_of(pos[0], s2, node)
                r = fresh("chosen", Val)
                s2.assume(Contains(sq, r))
                s2.assume(smt.index_fact(sq, r))
                out.append((s2, ex.wrap_elem(r, ex.list_elem_ty(pos[0]), s2)))
        return out
    if attr == "server_priority_function":
        ex.assumed_used.add("server_priority_function is a pure function returning a number")
        a = ex.as_ref(pos[0], st, node)
        b = ex.as_ref(pos[1], st, node)
        v = SPF(fv.t, a.t, b.t)
        st.assume(smt.isfin(v))
        return [(st, SV("val", v, T("num")))]
    if isinstance(f, ast.Subscript) and isinstance(f.value, ast.Attribute) and f.value.attr == "baulking_functions":
        ex.assumed_used.add("baulking functions are pure functions of the population returning a number")
        n = ex.as_int(pos[0], st, node)
        v = BaulkP(fv.t, n)
        st.assume(smt.isfin(v))
        return [(st, SV("val", v, T("num")))]
    raise Unsupported("call through function value " + ast.dump(f)[:60], node)


def ext_next(ex, st, pos, kw, node):
    """next(<router>.generator) for Cycle routers: the generator is itertools.cycle(<router>.cycle), created in
    Cycle.__init__ and never reassigned; ghost gen_pos(g) counts the items it has yielded (I-GEN, trusted)"""
    g = pos[0]
    arg = node.args[0]
    if g.k == "ref" and g.h is not None and g.h.kind == "gen" and g.h.name in getattr(ex.S, "gen_kinds", {}):
        return calls.generator_next(ex, st, g, node)
    if g.k != "ref" or g.h is None or g.h.kind != "gen" or not isinstance(arg, ast.Attribute):
        raise Unsupported("next() on something that is not a declared generator attribute", node)
    if g.h.name in getattr(ex.S, "gen_kinds", {}):
        return calls.generator_next(ex, st, g, node)
    if g.h.name != "Cycle":
        raise Unsupported("next() on generator kind " + str(g.h.name), node)
    owner = ex.ev1(arg.value, st)
    cyc = ex.read_field(st, owner, "cycle", node)
    sq = ex.seq_of(cyc, st, node)
    gp = ex.heap_get(st, "gen_pos")
    n = gp[g.t]
    ex.oblige(st, "def", "cycle-is-not-empty-so-next-cannot-raise-StopIteration", node, Len(sq) > 0)
    st.assume(Len(sq) > 0)
    ex.oblige(st, "def", "generator-position-non-negative", node, n >= 0)
    st.assume(n >= 0)
    ex.heap_set(st, "gen_pos", z3.Store(gp, g.t, n + 1))
    ex.assumed_used.add("Cycle.generator is itertools.cycle(self.cycle): yields cycle[k % len(cycle)] as its k-th item; the cycle list is never mutated")
    return [(st, ex.wrap_elem(At(sq, n % Len(sq)), ex.list_elem_ty(cyc), st))]


def spec_baulk_probability(ex, st, e):
    """baulk_probability(fn, n): the value the baulking function fn returns for population n (the same
    uninterpreted function the executor uses for the call itself)"""
    fv = ex.ev1(e.args[0], st)
    n = ex.as_int(ex.ev1(e.args[1], st), st, e)
    return SV("val", BaulkP(ex.to_val(fv), n), T("num"))


def declare(spec):
    from pyvc import specfn
    specfn.SPEC_FUNCS["baulk_probability"] = spec_baulk_probability
    spec.externals["random.random"] = ext_random
    spec.externals["random"] = ext_random
    spec.externals["$fnvalue"] = fnvalue
    spec.externals["next"] = ext_next
    spec.ghost["gen_pos"] = "int"
    TRUSTED.extend([
        "random.random() returns a float r with 0 <= r < 1 and touches only the random stream",
        "user-supplied callables (custom service discipline, server_priority_function, baulking functions, "
        "custom Distribution.sample) are total, return a value of the documented kind and write nothing in the simulation",
        "itertools.cycle(lst) yields lst[k % len(lst)] as its k-th item (Cycle router); the list is not mutated after construction",
    ])
