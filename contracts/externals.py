"""Assumed models of externals (the trusted base, listed in every evidence file)."""
import z3
from pyvc import smt
from pyvc.smt import Val
from pyvc.symexec import SV, fresh, R
from pyvc.types import parse as T

TRUSTED = []


def ext_random(ex, st, pos, kw, node):
    r = fresh("rnd", R)
    st.assume(z3.And(r >= 0, r < 1))
    ex.rnd_draws.append(r) if hasattr(ex, "rnd_draws") else None
    return [(st, SV("val", Val.realv(r), T("num")))]


def declare(spec):
    spec.externals["random.random"] = ext_random
    spec.externals["random"] = ext_random
    TRUSTED.append("random.random() returns a float r with 0 <= r < 1 and touches only the random stream")
