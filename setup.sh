#!/bin/sh
# Build the offline dependency overlay used by every check (z3-solver, cvc5, jsonschema).
# Installs from the local wheelhouse only; idempotent.
set -e
cd "$(dirname "$0")"
if [ ! -f .deps/.ok ]; then
  rm -rf .deps
  PIP_NO_INDEX=1 /venv/bin/python -m pip install --quiet --no-index --find-links /opt/veriftools/wheels \
      --target .deps z3-solver cvc5 jsonschema >/dev/null 2>&1 || \
  PIP_NO_INDEX=1 /venv/bin/python -m pip install --no-index --find-links /opt/veriftools/wheels \
      --target .deps z3-solver cvc5 jsonschema
  touch .deps/.ok
fi
echo "setup ok"
