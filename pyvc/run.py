"""Check runner: verifies the units a property depends on (in parallel), compares with the committed
ledger and the known-findings file, replays failures, writes evidence and prints VIOLATION /
KNOWN-FINDING lines.  Exit codes: 0 held, 1 violation, 2 undecided (unsupported construct only), 3 crash."""
import json
import multiprocessing as mp
import os
import sys
import time
import traceback

HERE = os.path.dirname(os.path.dirname(os.path.abspath(__file__)))
sys.path.insert(0, os.path.join(HERE, ".deps"))
sys.path.insert(0, HERE)

_G = {}


def _init():
    from pyvc.frontend import Program
    import contracts
    _G["P"] = Program()
    _G["S"] = contracts.build_spec()
    install_param_types(_G["P"], _G["S"])


def install_param_types(P, S):
    """let the syntactic write-closure use the parameter classes declared in contracts"""
    def param_types(fi):
        c = S.contracts.get(fi.qualname)
        out = {}
        if c is not None:
            for p, t in c.types.items():
                if isinstance(t, str) and t.startswith("obj:") and "|" not in t:
                    out[p] = t[4:]
        return out
    P.param_types = param_types


def _work(job):
    qual, rc, use_cvc5 = job
    from pyvc import verify
    if "P" not in _G:
        _init()
    t0 = time.time()
    try:
        r = verify.verify_unit(_G["P"], _G["S"], qual, rc, use_cvc5=use_cvc5)
        out = dict(unit=r.unit, status=r.status, message=r.message, obligations=r.obligations,
                   warnings=r.warnings, assumed_used=r.assumed_used, inlined=r.inlined, src_hash=r.src_hash,
                   vacuous=getattr(r, "vacuous", False), gen_time=r.gen_time, wall=time.time() - t0)
    except Exception:
        out = dict(unit=(rc + "::" if rc else "") + qual, status="crash", message=traceback.format_exc(),
                   obligations=[], warnings=[], assumed_used=[], inlined=[], src_hash="", vacuous=False,
                   gen_time=0, wall=time.time() - t0)
    return out


def run_units(units, use_cvc5=True, procs=None):
    jobs = [(q, rc, use_cvc5) for (q, rc) in units]
    procs = procs or min(16, max(1, len(jobs)))
    ncpu = int(os.environ.get("PYVC_CPUS", str(os.cpu_count() or 16)))
    from pyvc import verify
    # every solver call / symbolic execution holds one of `ncpu` slots (inherited through fork), so units may fan
    # their obligations out widely without oversubscribing the machine
    verify.SLOTS = mp.get_context("fork").Semaphore(ncpu)
    os.environ.setdefault("PYVC_OB_PROCS", str(max(1, min(ncpu, 8))))
    if procs == 1 or len(jobs) == 1:
        _init()
        return [_work(j) for j in jobs]
    procs = min(len(jobs), ncpu)
    with mp.get_context("fork").Pool(procs, initializer=_init) as pool:
        return pool.map(_work, jobs, chunksize=1)


_UNIT_PROPS = None


def unit_props():
    """unit name -> set of properties whose check lists it"""
    global _UNIT_PROPS
    if _UNIT_PROPS is None:
        import contracts.properties as props
        _UNIT_PROPS = {}
        for p, cfg in props.PROPS.items():
            for q, rc in cfg["units"]:
                _UNIT_PROPS.setdefault((rc + "::" if rc else "") + q, set()).add(p)
    return _UNIT_PROPS


def owns(ob, prop, unit=None):
    """does obligation `ob` decide property `prop`?  Clauses labelled `Cxx:` belong to that property
    only; unlabelled obligations (definedness, types, frames, pre-call, loops) belong to every
    property that lists the unit.  A labelled clause none of whose properties lists the unit it was
    generated in (e.g. a `C10:` precondition of a callee proved inside a unit that only C01 lists) would
    be reported by no check at all: such a clause belongs to every property that lists the unit."""
    lab = ob["label"]
    import re
    tags = re.findall(r"C\d\d(?=[:+])", lab.split("@")[0])
    if tags:
        if prop in tags:
            return True
        if unit is not None and not (set(tags) & unit_props().get(unit, set())):
            return True
        return False
    return True


def main(argv):
    from pyvc import report
    return report.main(argv)


if __name__ == "__main__":
    sys.exit(main(sys.argv[1:]))
