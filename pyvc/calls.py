"""Call rule of pyvc: builtins, externals (assumed models), list/dict methods, dynamic dispatch,
inlining of leaf methods, modular application of contracts (assert requires / havoc modifies /
assume ensures), and the spec-only functions available inside contract clauses."""
import ast
import z3
from . import smt
from .smt import Val, Seq, Len, At, Append1, RemoveAt, IndexOf, Contains, Take, Drop, Concat, Update, Empty
from .types import Ty, parse as T
from .symexec import (SV, Exc, Unsupported, State, fresh, cls_of, role_of, owner_of, slot_of, StrOf,
                      Intended, BinExp, FnHint, I, B, R, _uid)

MAX_INLINE_DEPTH = 6

MODULE_NAMES = ("random", "ciw", "nx", "np", "math", "copy", "itertools", "tqdm", "deadlock", "trackers")


def eval_call(ex, e, st):
    f = e.func
    kwnames = [k.arg for k in e.keywords]
    if any(k is None for k in kwnames):
        raise Unsupported("**kwargs call", e)
    argexprs = list(e.args) + [k.value for k in e.keywords]
    if any(isinstance(a, ast.Starred) for a in e.args):
        raise Unsupported("starred argument", e)

    # ---------------- spec-only functions
    if ex.spec_mode and isinstance(f, ast.Name):
        from . import specfn
        if f.id in specfn.SPEC_FUNCS:
            return [(st, specfn.SPEC_FUNCS[f.id](ex, st, e))]
        if f.id in ex.S.macros:
            lam = ast.parse(ex.S.macros[f.id].strip(), mode="eval").body
            args = [ex.ev1(a, st) for a in e.args]
            fh = FnHint(lam, dict(st.env))
            return [(st, apply_lambda(ex, st, fh, args, e))]
        if f.id in ex.S.ghost:
            o = ex.ev1(e.args[0], st)
            o = ex.as_ref(o, st, e)
            k = ex.S.ghost[f.id]
            term = ex.heap_get(st, f.id)[o.t]
            return [(st, SV(k if k != "ref" else "ref", term, T(k) if k in ("int", "bool", "val") else None))]

    def with_args(st0, cont):
        out = []
        for s, vals in ex.ev_many(argexprs, st0):
            if isinstance(vals, Exc):
                out.append((s, vals))
                continue
            pos = vals[:len(e.args)]
            kw = dict(zip(kwnames, vals[len(e.args):]))
            out.extend(cont(s, pos, kw))
        return out

    if isinstance(f, ast.Name):
        name = f.id
        if name in st.env:
            fv = st.env[name]
            return with_args(st, lambda s, pos, kw: call_value(ex, s, fv, pos, kw, e))
        if name == "super":
            raise Unsupported("bare super()", e)
        if name in BUILTINS:
            return BUILTINS[name](ex, st, e)
        if name in ex.S.externals:
            return with_args(st, lambda s, pos, kw: ex.S.externals[name](ex, s, pos, kw, e))
        if name in ex.P.classes:
            return with_args(st, lambda s, pos, kw: construct(ex, s, name, pos, kw, e))
        if name in ex.P.functions:
            fi = ex.P.functions[name]
            return with_args(st, lambda s, pos, kw: call_function(ex, s, fi, None, pos, kw, e))
        raise Unsupported("call of unknown name " + name, e)

    if isinstance(f, ast.Attribute):
        # super().method(...)
        if isinstance(f.value, ast.Call) and isinstance(f.value.func, ast.Name) and f.value.func.id == "super":
            owner = ex.cur_owner[-1]
            selfsv = st.env["self"]
            clsname = getattr(selfsv, "exactcls", None) or (selfsv.h.classes[0] if selfsv.h else owner)
            fi = ex.P.lookup_after(clsname, owner, f.attr)
            if fi is None:
                return with_args(st, lambda s, pos, kw: [(s, SV("val", Val.none, T("none")))])
            return with_args(st, lambda s, pos, kw: call_function(ex, s, fi, selfsv, pos, kw, e))
        # module.function
        if isinstance(f.value, ast.Name) and f.value.id in MODULE_NAMES and f.value.id not in st.env:
            dotted = f.value.id + "." + f.attr
            if dotted in ex.S.externals:
                return with_args(st, lambda s, pos, kw: ex.S.externals[dotted](ex, s, pos, kw, e))
            if f.attr in ex.P.functions:     # ciw.random_choice
                fi = ex.P.functions[f.attr]
                return with_args(st, lambda s, pos, kw: call_function(ex, s, fi, None, pos, kw, e))
            if f.attr in ex.P.classes:       # deadlock.NoDetection()
                return with_args(st, lambda s, pos, kw: construct(ex, s, f.attr, pos, kw, e))
            raise Unsupported("call of unmodelled external " + dotted, e)
        out = []
        for s, recv in ex.ev(f.value, st):
            if isinstance(recv, Exc):
                out.append((s, recv))
                continue
            out.extend(with_args(s, lambda s2, pos, kw, recv=recv: method_call(ex, s2, recv, f.attr, pos, kw, e)))
        return out
    # call of a call result / subscript, e.g. self.baulking_functions[c](...)
    out = []
    for s, fv in ex.ev(f, st):
        if isinstance(fv, Exc):
            out.append((s, fv))
            continue
        out.extend(with_args(s, lambda s2, pos, kw, fv=fv: call_value(ex, s2, fv, pos, kw, e)))
    return out


# ==================================================================================================
def method_call(ex, st, recv, name, pos, kw, node):
    # list methods
    h = recv.h
    if recv.k == "ref" and h is not None and h.kind == "list":
        return list_method(ex, st, recv, name, pos, kw, node)
    if recv.k == "seq":
        if name == "index":
            s = recv.t
            x = ex.to_val(pos[0])
            ex.oblige(st, "def", "index-element-present", node, Contains(s, x))
            st.assume(smt.index_fact(s, x))
            return [(st, SV("int", IndexOf(s, x), T("int")))]
        raise Unsupported("method on seq: " + name, node)
    if recv.k == "ref" and h is not None and h.kind == "dict":
        return dict_method(ex, st, recv, name, pos, kw, node)
    if recv.k == "ref" and h is not None and h.kind == "gen":
        raise Unsupported("generator method " + name, node)
    if recv.k == "val" and (h is None or h.sort() == "val"):
        inner = h
        while inner is not None and inner.kind in ("opt", "orfalse"):
            inner = inner.args[0]
        if inner is not None and inner.kind == "list":
            r = ex.as_ref(recv, st, node, name)
            r.h = inner
            return list_method(ex, st, r, name, pos, kw, node)
        if (inner is None or inner.kind in ("val", "union")) and name in ("append", "remove", "pop", "index", "sort"):
            # a list method on a value of unknown static type: it must be a list object
            ex.oblige(st, "def", f"{name}-receiver-is-a-list", node,
                      z3.And(Val.is_ref(recv.t), cls_of(Val.o(recv.t)) == ex.cid("LIST")))
            r = SV("ref", Val.o(recv.t), Ty("list", name="Any"))
            return list_method(ex, st, r, name, pos, kw, node)
    o = ex.as_ref(recv, st, node, f"receiver-of-{name}")
    return ex.call_method(st, o, name, pos, kw, node)


def list_method(ex, st, l, name, pos, kw, node):
    seq = ex.heap_get(st, "$seq")
    s = seq[l.t]
    ety = ex.list_elem_ty(l)

    def elem(v):
        if ety is not None and ety.kind != "val":
            t = ex.coerce(v, ety, st, node, "list-element")
            return ex.to_val(SV(ety.sort(), t, ety))
        return ex.to_val(v)
    if name == "append":
        x = elem(pos[0])
        if l.h.name == "Local" and not l.h.args and pos[0].h is not None:
            l.h.args = [pos[0].h]
        ex.heap_set(st, "$seq", z3.Store(seq, l.t, Append1(s, x)), hint=l.h, fresh_obj=l.fresh)
        # eager ground instances of the Append1 axioms for the element just appended (membership, length, last position)
        if ex.quant_facts is None:
            st.add_fact(z3.And(Contains(Append1(s, x), x), Len(Append1(s, x)) == Len(s) + 1, At(Append1(s, x), Len(s)) == x))
        if ety is not None and ety.kind in ("num", "int", "time", "fnum", "real"):
            # eager instance of the sum axiom for lists of numbers
            st.add_fact(smt.SumR(Append1(s, x)) == smt.SumR(s) + smt.numr(x))
        ex.on_event(st, "append", l, pos[0], node)
        return [(st, SV("val", Val.none, T("none")))]
    if name == "remove":
        x = ex.to_val(pos[0])
        ex.oblige(st, "def", "remove-element-present", node, Contains(s, x))
        st.assume(smt.index_fact(s, x))
        ex.heap_set(st, "$seq", z3.Store(seq, l.t, RemoveAt(s, IndexOf(s, x))), hint=l.h, fresh_obj=l.fresh)
        ex.on_event(st, "remove", l, pos[0], node)
        return [(st, SV("val", Val.none, T("none")))]
    if name == "index":
        x = ex.to_val(pos[0])
        ex.oblige(st, "def", "index-element-present", node, Contains(s, x))
        st.assume(smt.index_fact(s, x))
        return [(st, SV("int", IndexOf(s, x), T("int")))]
    if name == "pop":
        if pos:
            i = ex.as_int(pos[0], st, node)
            isimp = z3.simplify(i)
            if not (z3.is_int_value(isimp) and isimp.as_long() == 0):
                ex.oblige(st, "def", "pop-index-in-range", node, z3.And(0 <= i, i < Len(s)))
            else:
                ex.oblige(st, "def", "pop-from-nonempty", node, Len(s) > 0)
        else:
            ex.oblige(st, "def", "pop-from-nonempty", node, Len(s) > 0)
            i = Len(s) - 1
        res = ex.wrap_elem(At(s, i), ety, st)
        ex.heap_set(st, "$seq", z3.Store(seq, l.t, RemoveAt(s, i)), hint=l.h, fresh_obj=l.fresh)
        ex.on_event(st, "remove", l, res, node)
        return [(st, res)]
    if name == "sort":
        r = fresh("sorted", Seq)
        x = z3.Const(f"x!{next(_uid)}", Val)
        st.assume(Len(r) == Len(s))
        st.assume(smt.forall([x], Contains(r, x) == Contains(s, x), patterns=[Contains(r, x)]))
        st.assume(smt.forall([x], Contains(r, x) == Contains(s, x), patterns=[Contains(s, x)]))
        _assume_sorted(ex, st, r, kw.get("key"), kw.get("reverse"), ety, node)
        ex.heap_set(st, "$seq", z3.Store(seq, l.t, r), hint=l.h, fresh_obj=l.fresh)
        return [(st, SV("val", Val.none, T("none")))]
    raise Unsupported("list method " + name, node)


def _assume_sorted(ex, st, r, key, reverse, ety, node):
    """r is ordered by key (a lambda SV) ascending (descending if reverse)"""
    if key is None:
        return
    if not isinstance(key.h, FnHint):
        return      # order unknown: only the permutation facts are assumed
    rev = False
    if reverse is not None:
        rv = z3.simplify(ex.truthy(reverse, st))
        if z3.is_true(rv):
            rev = True
        elif not z3.is_false(rv):
            return
    i, j = z3.Ints(f"si!{next(_uid)} sj!{next(_uid)}")
    facts = []
    saved, savedd = ex.quant_facts, ex.defs_collector
    ex.quant_facts, ex.defs_collector = facts, []
    ex.spec_mode += 1
    try:
        s2 = st.copy()
        ki = apply_lambda(ex, s2, key.h, [ex.wrap_elem(At(r, i), ety, s2)], node)
        kj = apply_lambda(ex, s2, key.h, [ex.wrap_elem(At(r, j), ety, s2)], node)
    finally:
        ex.spec_mode -= 1
        ex.quant_facts, ex.defs_collector = saved, savedd
    le = key_le(ex, ki, kj) if not rev else key_le(ex, kj, ki)
    st.assume(smt.forall([i, j], z3.Implies(z3.And(0 <= i, i < j, j < Len(r), *facts), le),
                        patterns=[z3.MultiPattern(At(r, i), At(r, j))]))


def key_le(ex, a, b):
    """a <= b for sort keys (numbers or 2-tuples of numbers, lexicographic)"""
    if a.k == "val" and a.h is not None and a.h.kind == "tup2":
        a0, a1, b0, b1 = Val.t0(a.t), Val.t1(a.t), Val.t0(b.t), Val.t1(b.t)
        lt0, _ = smt.py_lt(a0, b0)
        le1, _ = smt.py_le(a1, b1)
        return z3.Or(lt0, z3.And(smt.py_eq(a0, b0), le1))
    if a.k == "int" and b.k == "int":
        return a.t <= b.t
    v, _ = smt.py_le(ex.to_val(a), ex.to_val(b))
    return v


def dict_method(ex, st, d, name, pos, kw, node):
    dh, dv, dk = ex.heap_get(st, "$dh"), ex.heap_get(st, "$dv"), ex.heap_get(st, "$dk")
    kd = ex.S.kinds.get(d.h.name)
    kty, vty = kd if isinstance(kd, tuple) else (None, None)
    if name == "get":
        key = ex.to_val(pos[0])
        dflt = ex.to_val(pos[1]) if len(pos) > 1 else Val.none
        term = z3.If(dh[d.t][key], dv[d.t][key], dflt)
        if vty is not None:
            ex.assume(st, z3.Implies(dh[d.t][key], z3.simplify(ex.type_pred(vty, dv[d.t][key], st, "val"))))
        return [(st, SV("val", term, vty if (vty is not None and vty.sort() == "val") else None))]
    if name == "keys":
        return [(st, SV("seq", ex.dict_keys(st, d.t), Ty("seq", args=[kty] if kty else [])))]
    if name == "values":
        vs = fresh("dvals", Seq)
        j = z3.Int(f"j!{next(_uid)}")
        st.assume(Len(vs) == Len(dk[d.t]))
        st.assume(smt.forall([j], z3.Implies(z3.And(0 <= j, j < Len(vs)), At(vs, j) == dv[d.t][At(dk[d.t], j)]),
                            patterns=[At(vs, j)]))
        return [(st, SV("seq", vs, Ty("seq", args=[vty] if vty else [])))]
    if name == "items":
        vs = fresh("ditems", Seq)
        j = z3.Int(f"j!{next(_uid)}")
        st.assume(Len(vs) == Len(dk[d.t]))
        st.assume(smt.forall([j], z3.Implies(z3.And(0 <= j, j < Len(vs)),
                                            At(vs, j) == Val.tup2(At(dk[d.t], j), dv[d.t][At(dk[d.t], j)])),
                            patterns=[At(vs, j)]))
        return [(st, SV("seq", vs, Ty("seq", args=[Ty("tup2", args=[kty or T("val"), vty or T("val")])])))]
    raise Unsupported("dict method " + name, node)


# ==================================================================================================
def call_value(ex, st, fv, pos, kw, node):
    """call through a function value"""
    if isinstance(fv.h, FnHint):
        s2 = st
        r = apply_lambda(ex, s2, fv.h, pos, node)
        return [(s2, r)]
    if fv.h is not None and fv.h.kind == "fnconst":
        name = fv.h.name
        if name in ex.P.classes:
            return construct(ex, st, name, pos, kw, node)
        if name in ex.P.functions:
            return call_function(ex, st, ex.P.functions[name], None, pos, kw, node)
    model = ex.S.externals.get("$fnvalue")
    if model is None:
        raise Unsupported("call through a function value", node)
    return model(ex, st, fv, pos, kw, node)


def apply_lambda(ex, st, fh, args, node):
    lam = fh.lam
    params = [a.arg for a in lam.args.args]
    saved = st.env
    st.env = dict(fh.env)
    st.env.update(saved if False else {})
    for p, a in zip(params, args):
        st.env[p] = a
    try:
        r = ex.ev(lam.body, st)
    finally:
        st.env = saved
    if len(r) != 1:
        raise Unsupported("forking lambda body", node)
    if isinstance(r[0][1], Exc):
        raise Unsupported("raising lambda body", node)
    return r[0][1]


def construct(ex, st, clsname, pos, kw, node):
    key = clsname + ".__init__"
    c = ex.S.contracts.get(key)
    fi = ex.P.lookup(clsname, "__init__")
    r = ex.alloc(st, clsname)
    oa = getattr(ex.S, "on_alloc", None)
    if oa:
        oa(ex, st, clsname, r)
    o = SV("ref", r, Ty("obj", classes=[clsname]))
    o.exactcls = clsname
    if fi is None:
        return [(st, o)]
    # a fresh object has none of its lazily created attributes
    out = []
    for s2, res in call_function(ex, st, fi, o, pos, kw, node, constructing=True):
        out.append((s2, res if isinstance(res, Exc) else o))
    return out


def resolve(ex, o, name):
    """possible FuncInfos for o.name(...) grouped by concrete receiver classes"""
    classes = ex.static_classes(o)
    exact = getattr(o, "exactcls", None)
    concs = [exact] if exact else ex.concrete_subclasses(classes)
    groups = {}
    for c in concs:
        fi = ex.P.lookup(c, name) if c in ex.P.classes else None
        groups.setdefault(fi, []).append(c)
    return groups


def call_method(ex, st, o, name, pos, kw, node):
    groups = resolve(ex, o, name)
    if not groups or all(fi is None for fi in groups):
        # a field holding a function value?
        fty = ex.field_ty(ex.static_classes(o), name)
        if fty is not None:
            fv = ex.read_field(st, o, name, node)
            return call_value(ex, st, fv, pos, kw, node)
        raise Unsupported(f"unknown method {name} on {ex.static_classes(o)}", node)
    # regroup the concrete receiver classes by the contract that governs them: the nearest class in the MRO
    # with a (non-inline) contract for this method -- a class-level contract covers its subclasses -- or,
    # failing that, the resolved function itself
    exact = getattr(o, "exactcls", None)
    static = [sc for sc in ex.static_classes(o) if sc in ex.P.classes]
    regroup = {}
    missing = [c for fi, concs in groups.items() if fi is None for c in concs]
    if missing and not ex.spec_mode:
        # AttributeError for receivers of a class without this method
        ex.oblige(st, "def", f"receiver-has-method-{name}", node,
                  z3.Not(z3.Or([cls_of(o.t) == ex.cid(c) for c in missing])))
        st.assume(z3.Not(z3.Or([cls_of(o.t) == ex.cid(c) for c in missing])))
    for fi, concs in groups.items():
        if fi is None:
            continue
        for c in concs:
            key = None
            if exact is None and c in ex.P.classes:
                for m in ex.P.mro(c):
                    k = m + "." + name
                    if k in ex.S.contracts and not ex.S.contracts[k].inline:
                        if ex.S.contracts[k].refines and not all(m in ex.P.mro(sc) for sc in static):
                            continue        # a refinement: only for receivers statically known to be of that class
                        key = k
                        break
            if key is not None:
                kfi = ex.P.lookup(key.split(".")[0], name) or fi    # a class-level contract for a method the base class only declares by convention
                regroup.setdefault(("contract", key, kfi), []).append(c)
            else:
                regroup.setdefault(("fn", None, fi), []).append(c)
    if len(regroup) == 1:
        ((kind, key, fi), concs), = regroup.items()
        if fi is None:
            raise Unsupported(f"method {name} missing on {concs}", node)
        return call_function(ex, st, fi, o, pos, kw, node, contract_key=key)
    if ex.spec_mode:
        # contract clauses cannot fork: evaluate every resolution and select by the receiver's class
        merged = None
        for (kind, key, fi), concs in regroup.items():
            if fi is None:
                continue
            o2 = SV("ref", o.t, Ty("obj", classes=concs))
            r = call_function(ex, st, fi, o2, pos, kw, node, contract_key=key)
            if len(r) != 1 or isinstance(r[0][1], Exc):
                raise Unsupported(f"forking method {name} in a contract clause", node)
            v = r[0][1]
            cond = z3.Or([cls_of(o.t) == ex.cid(c) for c in concs])
            merged = v if merged is None else ex.merge(cond, v, merged, st)
        return [(st, merged)]
    out = []
    for (kind, key, fi), concs in regroup.items():
        cond = z3.Or([cls_of(o.t) == ex.cid(c) for c in concs])
        s2 = st.copy()
        if not ex.noprune and not ex.feasible(s2, cond):
            continue
        s2.assume(cond)
        o2 = SV("ref", o.t, Ty("obj", classes=concs))
        if fi is None:
            raise Unsupported(f"method {name} missing on {concs}", node)
        out.extend(call_function(ex, s2, fi, o2, pos, kw, node, contract_key=key))
    return out


def bind_params(ex, st, fi, recv, pos, kw, node):
    env = {}
    params = list(fi.params)
    if fi.cls is not None and params and params[0] == "self":
        env["self"] = recv
        params = params[1:]
    if len(pos) > len(params):
        raise Unsupported(f"too many positional args calling {fi.qualname}", node)
    for p, a in zip(params, pos):
        env[p] = a
    for k, v in kw.items():
        if k not in params:
            if fi.node.args.kwarg is not None:
                continue
            raise Unsupported(f"unexpected keyword {k} calling {fi.qualname}", node)
        env[k] = v
    for p in params:
        if p not in env:
            if p in fi.defaults:
                s0 = State()
                s0.heap, s0.pc = st.heap, st.pc
                env[p] = ex.ev1(fi.defaults[p], s0)
            else:
                raise Unsupported(f"missing argument {p} calling {fi.qualname}", node)
    return env


def call_function(ex, st, fi, recv, pos, kw, node, constructing=False, contract_key=None):
    key = contract_key or fi.qualname
    c = ex.S.contracts.get(key)
    # receiver-specific contract overrides, e.g. "PSNode::Node.release"
    if recv is not None:
        exact = getattr(recv, "exactcls", None)
        if exact and (exact + "::" + key) in ex.S.contracts:
            c = ex.S.contracts[exact + "::" + key]
    env = bind_params(ex, st, fi, recv, pos, kw, node)
    if c is not None and c.yields:
        return make_generator(ex, st, fi, c, env, node)
    if c is not None and not c.inline:
        return apply_contract(ex, st, fi, c, env, node)
    return inline_call(ex, st, fi, env, node)


def gen_ghost(kind, param):
    return f"gen${kind}${param}"


def make_generator(ex, st, fi, c, env, node):
    """calling a generator function under a `yields` contract runs none of its body: it creates a generator object
    that remembers its arguments (ghost maps gen$<kind>$<param>) and has yielded gen_pos = 0 values; its
    preconditions are proved here, where the arguments are fixed"""
    for p, tys in c.types.items():
        if p in env:
            env[p] = retype(ex, st, env[p], T(tys))
    for lab, text in c.requires:
        ex.oblige(st, "pre-call", f"{c.target}:{lab}", node, spec_eval(ex, st, env, text))
    g = ex.alloc(st, "GEN")
    for p, v in env.items():
        name = gen_ghost(c.gen_kind, p)
        if name not in ex.S.ghost:
            raise Unsupported(f"generator parameter {p} has no ghost map {name}", node)
        ex.heap_set(st, name, z3.Store(ex.heap_get(st, name), g, ex.to_val(v)), fresh_obj=True)
    ex.heap_set(st, "gen_pos", z3.Store(ex.heap_get(st, "gen_pos"), g, z3.IntVal(0)), fresh_obj=True)
    sv = SV("ref", g, Ty("gen", name=c.gen_kind), fresh=True)
    return [(st, sv)]


def generator_next(ex, st, g, node):
    """next(g) for a generator made by make_generator: the gen_pos(g)-th value of the `yields` contract, evaluated with
    the remembered arguments in the CURRENT heap (a generator reads its list arguments when it is resumed)"""
    kind = g.h.name
    key = ex.S.gen_kinds.get(kind)
    c = ex.S.contracts[key]
    fi = ex.P.get(key)
    env = {}
    params = list(fi.params)
    for p in params:
        v = SV("val", ex.heap_get(st, gen_ghost(kind, p))[g.t], None)
        if p == "self":
            env[p] = ex.from_val(v.t, Ty("obj", classes=[fi.cls]))
        elif p in c.types:
            env[p] = retype(ex, st, v, T(c.types[p]))
            st.assume(z3.simplify(ex.type_pred(T(c.types[p]), env[p].t if env[p].k != "val" else env[p].t, st)))
        else:
            env[p] = v
    gp = ex.heap_get(st, "gen_pos")
    k = gp[g.t]
    ex.oblige(st, "def", "generator-position-non-negative", node, k >= 0)
    st.assume(k >= 0)
    # the generator's preconditions held when it was created; lists it reads are assumed not to have been emptied since
    for lab, text in c.requires:
        st.assume(spec_eval(ex, st, env, text))
    ex.assumed_used.add(f"the arguments of a {kind} generator still satisfy {c.target}'s precondition when it is resumed")
    lam = ast.parse(c.yields.strip(), mode="eval").body
    e2 = dict(env)
    e2[lam.args.args[0].arg] = SV("int", k, T("int"))
    val = spec_eval_value(ex, st, e2, ast.unparse(lam.body))
    ex.heap_set(st, "gen_pos", z3.Store(gp, g.t, k + 1))
    return [(st, val)]


def inline_call(ex, st, fi, env, node):
    if len(ex.call_stack) >= MAX_INLINE_DEPTH or fi.qualname in [q for q, _ in ex.call_stack]:
        raise Unsupported(f"inlining {fi.qualname} (no contract; depth/recursion limit)", node)
    ex.inlined.add(fi.qualname)
    ex.call_stack.append((fi.qualname, getattr(node, "lineno", None)))
    ex.cur_owner.append(fi.cls)
    ic = ex.S.contracts.get(fi.qualname)
    ex.contract_stack.append(ic if ic is not None else (ex.contract_stack[-1] if ex.contract_stack else None))
    saved_env = st.env
    st.env = env
    # coerce parameters declared in the contract's `types`
    c = ex.S.contracts.get(fi.qualname)
    if c is not None:
        for p, tys in c.types.items():
            if p in env and env[p].h is None:
                env[p] = retype(ex, st, env[p], T(tys))
    try:
        results = ex.exec_block(fi.body(), st)
    finally:
        ex.call_stack.pop()
        ex.cur_owner.pop()
        ex.contract_stack.pop()
    out = []
    for s, oc in results:
        s.env = dict(saved_env)      # every forked path gets its own copy of the caller's locals
        if oc is None:
            out.append((s, SV("val", Val.none, T("none"))))
        elif oc[0] == "return":
            out.append((s, oc[1] if oc[1] is not None else SV("val", Val.none, T("none"))))
        elif oc[0] == "raise":
            out.append((s, oc[1]))
        else:
            raise Unsupported("break/continue escaping function", node)
    return out


def retype(ex, st, sv, ty):
    if sv.k == "ref" and ty.kind == "list" and ty.name == "Any" and sv.h is not None and sv.h.kind == "list":
        return sv       # keep the more specific list kind (element typing)
    if sv.k == ty.sort() or (sv.k == "ref" and ty.sort() == "ref"):
        r = SV(sv.k, sv.t, ty)
        r.fresh = sv.fresh
        return r
    if sv.k == "val":
        return ex.from_val(sv.t, ty) if ty.sort() != "val" else SV("val", sv.t, ty)
    return sv


# ==================================================================================================
def spec_eval(ex, st, env, text, old=None, result=None):
    """evaluate a contract clause (Python expression text) to a z3 Bool in state st with names env"""
    tree = ast.parse(text.strip(), mode="eval").body
    s = State()
    s.heap, s.pc, s.known = st.heap, st.pc, st.known
    s.epoch = st.epoch
    s.guards = st.guards
    s.env = dict(env)
    if result is not None:
        s.env["result"] = result
    ex.spec_mode += 1
    ex.old_stack.append(old)
    try:
        v = ex.ev1(tree, s)
    finally:
        ex.spec_mode -= 1
        ex.old_stack.pop()
    st.heap = s.heap
    return ex.truthy(v, st)


def spec_eval_value(ex, st, env, text, old=None, result=None):
    """like spec_eval, but returns the symbolic value instead of its truth"""
    tree = ast.parse(text.strip(), mode="eval").body
    s = State()
    s.heap, s.pc, s.known = st.heap, st.pc, st.known
    s.epoch = st.epoch
    s.guards = st.guards
    s.env = dict(env)
    if result is not None:
        s.env["result"] = result
    ex.spec_mode += 1
    ex.old_stack.append(old)
    try:
        v = ex.ev1(tree, s)
    finally:
        ex.spec_mode -= 1
        ex.old_stack.pop()
    st.heap = s.heap
    return v


def parse_modifies(ex, st, env, entries):
    """-> dict heapname -> None (whole) | list of z3 predicates over a bound ref variable `o`"""
    mods = {}
    o = z3.Int("mo!")
    star = False
    for ent in entries:
        if ent == "*":
            star = True
            continue
        where = None
        if "@" in ent:
            name, where = ent.split("@", 1)
            name = name.strip()
        else:
            name = ent.strip()
        kindsel = None
        if "[" in name:
            name, kindsel = name[:-1].split("[", 1)
        preds = []
        heapnames = [name]
        if name == "$dict":
            heapnames = ["$dv", "$dh", "$dk"]
        if kindsel is not None:
            preds.append(role_of(o) == ex.rid(kindsel))
        if where is not None and where.strip().startswith("lambda"):
            lam = ast.parse(where.strip(), mode="eval").body
            pname = lam.args.args[0].arg
            ex.spec_mode += 1
            saved_q, saved_b = ex.quant_facts, ex.bound_vars
            ex.quant_facts = []
            ex.bound_vars = tuple(saved_b) + (o,)
            try:
                s = State()
                s.heap, s.pc, s.known, s.epoch = st.heap, st.pc, st.known, st.epoch
                s.env = dict(env)
                s.env[pname] = SV("ref", o, None)
                pv = ex.truthy(ex.ev1(lam.body, s), s)
                st.heap = s.heap
            finally:
                ex.spec_mode -= 1
                ex.quant_facts, ex.bound_vars = saved_q, saved_b
            preds.append(pv)
            where = None
        if where is not None:
            ex.spec_mode += 1
            try:
                s = State()
                s.heap, s.pc, s.known = st.heap, st.pc, st.known
                s.epoch = st.epoch
                s.env = dict(env)
                tgt = ex.ev1(ast.parse(where.strip(), mode="eval").body, s)
                st.heap = s.heap
            finally:
                ex.spec_mode -= 1
            ex.spec_mode += 1       # a None target simply denotes no object: no definedness obligation
            try:
                if kindsel is not None:
                    tr = ex.as_ref(tgt, st, None)
                    preds.append(owner_of(o) == tr.t)
                else:
                    if tgt.k == "seq":
                        # a list of objects: every element
                        preds.append(Contains(tgt.t, Val.ref(o)))
                    elif tgt.k == "val":
                        preds.append(z3.And(Val.is_ref(tgt.t), o == Val.o(tgt.t)))
                    else:
                        tr = ex.as_ref(tgt, st, None)
                        p0 = o == tr.t
                        if name in ("$seq", "$dict") and tr.h is not None and tr.h.kind in ("list", "dict") and tr.h.name not in ("Any", "Local"):
                            ex.role_alt[p0.get_id()] = role_of(o) == ex.rid(tr.h.name)
                        preds.append(p0)
            finally:
                ex.spec_mode -= 1
        for hn in heapnames:
            if not preds:
                mods[hn] = None
            elif hn in mods and mods[hn] is None:
                pass
            else:
                mods.setdefault(hn, []).append(z3.And(preds) if len(preds) > 1 else preds[0])
    return mods, star, o


def apply_contract(ex, st, fi, c, env, node):
    if c.cases:
        # behaviours: exactly the cases whose guard can hold are explored; the guards must cover
        whens = []
        outs = []
        for cs in c.cases:
            s2 = st.copy()
            g = spec_eval(ex, s2, dict(env), cs.when)
            whens.append(spec_eval(ex, st, dict(env), cs.when))
            if not ex.noprune and not ex.feasible(s2, g):
                continue
            s2.assume(g)
            outs.extend(apply_contract(ex, s2, fi, cs, dict(env), node))
        ex.oblige(st, "pre-call", f"{c.target}:some-case-applies", node, z3.Or(whens))
        return outs
    if c.assumed:
        ex.assumed_used.add(c.target)
    cur = ex.contract_stack[-1] if ex.contract_stack else None
    st.known["$calls"] = dict(st.known.get("$calls", {}))
    st.known["$calls"][fi.name] = st.known["$calls"].get(fi.name, 0) + 1
    unitc = ex.contract_stack[0] if ex.contract_stack else None
    for cc in ([cur] if cur is unitc or unitc is None else [cur, unitc]):
        if cc is None:
            continue
        for key in (c.target, fi.name):
            for text in cc.call_assumes.get(key, []):
                ex.assumed_used.add(f"assumed before the call to {c.target} in {cc.target}: {text}")
                st.assume(spec_eval(ex, st, dict(env), text))
    if cur is not None:
        for key in (c.target, fi.name):
            if not ex.call_stack:        # checkpoints belong to the unit itself, not to inlined callees
                for item in cur.at_call.get(key, []):
                    lab, text = item if isinstance(item, tuple) else (f"at-call-{key}", item)
                    e2 = dict(ex.entry_env)
                    e2.update({k: v for k, v in ex.unit_env_view(st).items()})
                    # the actual arguments of this call are visible as arg_<parameter name>
                    e2.update({"arg_" + k: v for k, v in env.items() if k != "self"})
                    for _try in range(6):
                        try:
                            g = spec_eval(ex, st, e2, text, old=ex.entry_old)
                            break
                        except Unsupported as u:
                            if "unknown name in spec: " not in u.msg:
                                raise
                            # a local that does not exist on this path: an arbitrary value (the clause must hold whatever it is)
                            nm = u.msg.split("unknown name in spec: ")[1].split()[0]
                            e2[nm] = SV("val", fresh("undef_" + nm, Val), None)
                    ex.oblige(st, "at-call", f"{lab}", node, g)
                    st.assume(g)        # assert-then-assume: a checkpoint is available as a lemma to what follows
    # parameter typing from the contract
    for p, tys in c.types.items():
        if p in env:
            ty = T(tys)
            ex.oblige(st, "pre-call", f"{c.target}:type-{p}", node,
                      ex.type_pred(ty, ex.to_val(env[p]) if ty.sort() == "val" or env[p].k == "val" else env[p].t, st,
                                   "val" if (ty.sort() == "val" or env[p].k == "val") else None)
                      if not (env[p].k == ty.sort() and env[p].k in ("int", "bool", "str")) else z3.BoolVal(True))
            env[p] = retype(ex, st, env[p], ty)
    # requires
    for lab, text in c.requires:
        g = spec_eval(ex, st, env, text)
        if lab.startswith("inv:"):
            # a structural invariant of the simulation: assumed to hold at every call boundary (its
            # re-establishment between the steps of one event is not proved; listed as an assumption)
            ex.assumed_used.add(f"invariant {lab[4:]} is assumed at internal call sites of {c.target} (proved preserved per function, not across cascades)")
            st.assume(g)
        else:
            ex.oblige(st, "pre-call", f"{c.target}:{lab}", node, g)
    old_heap = dict(st.heap)
    old = (old_heap, dict(env), getattr(st, "epoch", 0))
    mods, star, ovar = parse_modifies(ex, st, env, c.modifies)
    alive0 = ex.heap_get(st, "$alive")
    if star:
        havoc_all(ex, st, fi)
    else:
        for hn, preds in mods.items():
            havoc_heap(ex, st, hn, preds, ovar, alive0)
    if c.allocates or star:
        a_old = ex.named_heap(st, "$alive")
        _, a_new = ex.fresh_heap(st, "$alive", preds=("classes", alloc_classes(c, star)))
        o = z3.Int(f"o!{next(_uid)}")
        st.assume(smt.forall([o], z3.Implies(a_old[o], a_new[o]), patterns=[a_old[o]]))
        st.assume(smt.forall([o], z3.Implies(a_old[o], a_new[o]), patterns=[a_new[o]]))
        allowed = alloc_classes(c, star)
        if allowed is not None:
            # only objects of the declared classes are created (containers by default)
            okcls = z3.Or([cls_of(o) == ex.cid(n) for n in allowed])
            st.assume(smt.forall([o], z3.Implies(z3.And(a_new[o], z3.Not(a_old[o])), okcls), patterns=[a_new[o]]))
    # result
    result = None
    if c.returns is not None:
        rty = T(c.returns)
        rt = fresh("res_" + fi.name, ex.z3sort(rty.sort()))
        result = SV(rty.sort(), rt, rty)
        st.assume(z3.simplify(ex.type_pred(rty, rt, st)))
    else:
        result = SV("val", Val.none, T("none"))
    outs = []
    # exceptional exits
    # (name, cond): MAY raise `name` when cond held in the pre-state; "name!" : DOES raise then
    for excname, cond in c.raises:
        s2 = st.copy()
        s2.heap = dict(old_heap)
        g = spec_eval(ex, s2, env, cond)
        if ex.noprune or ex.feasible(s2, g):
            s2.assume(g)
            outs.append((s2, Exc(excname.rstrip("!"), node)))
        if excname.endswith("!"):
            st.assume(z3.Not(spec_eval_in(ex, st, old_heap, env, cond)))
    for lab, text in c.ensures:
        g = spec_eval(ex, st, env, text, old=old, result=result)
        st.assume(g)
    if c.pure and result is not None:
        # a pure function called again on the same arguments, with no write to a pre-existing object in between,
        # returns the same value (for a list: a list with the same contents)
        memo = st.known.setdefault("$pure", {})
        memo = dict(memo)
        st.known["$pure"] = memo
        key = (c.target, tuple(sorted((k, v.t.get_id()) for k, v in env.items() if hasattr(v, "t"))), st.known.get("$mut", 0))
        if key in memo:
            prev = memo[key]
            if result.k == "ref" and result.h is not None and result.h.kind == "list":
                st.assume(ex.seq_of(result, st) == prev[1])
            else:
                st.assume(ex.to_val(result) == prev[0])
        else:
            memo[key] = (ex.to_val(result), ex.seq_of(result, st) if (result.k == "ref" and result.h is not None and result.h.kind == "list") else None)
    if cur is not None:
        for key in (c.target, fi.name):
            for text in cur.lemma_after.get(key, []):
                # inside an inlined helper the clause sees the unit's parameters (as bound at entry)
                e2 = dict(ex.unit_env_view(st)) if not ex.call_stack else dict(ex.entry_env)
                try:
                    g = spec_eval(ex, st, e2, text, old=ex.entry_old, result=result)
                except Unsupported as u:
                    if "unknown name" in u.msg or ex.call_stack:
                        continue            # the lemma mentions a local that does not exist (yet) at this call / is not meant for this inlined helper
                    raise
                ex.assumed_used.add(f"assumed after the call to {c.target} in {cur.target}: {text}")
                st.assume(g)
    outs.append((st, result))
    return outs


CONTAINERS = ["LIST", "DICT", "GEN"]


def alloc_classes(c, star=False):
    """classes of the objects a call may allocate: None = anything"""
    if star or c.allocates == "any":
        return None
    if c.allocates is True:
        return CONTAINERS
    if isinstance(c.allocates, (list, tuple)):
        return CONTAINERS + list(c.allocates)
    return []


def spec_eval_in(ex, st, heap, env, text):
    s = State()
    s.heap, s.pc, s.known = dict(heap), st.pc, st.known
    return spec_eval(ex, s, env, text)


def havoc_all(ex, st, fi=None):
    """`*`: everything the callee's call graph can possibly write.  An attribute that no function reachable
    from the callee (resolved by NAME over all repo classes) ever assigns keeps its value; one that is only
    assigned through `self` inside some classes keeps its value on objects of all other classes; containers,
    ghost state and attribute-existence maps are always havocked."""
    closure = None
    if fi is not None:
        closure, mut = ex.P.write_closure(fi)
        # materialise every declared attribute first, so that kept ones are not lost with the epoch change
        for (c, n) in ex.S.fields:
            if n not in st.heap:
                ex.heap_get(st, n)
    keep = set()
    # containers: which list / dict kinds can be reached through the attributes the call graph mutates through
    croles = None
    if closure is not None and None not in mut:
        croles = {"Local", "Any"}
        for a in mut:
            if a == "$Local":
                continue
            attr, depth = a
            for (c, n), ty in ex.S.fields.items():
                if n == attr:
                    kinds_at_depth(ex, ty, depth, croles)
    for hn in list(st.heap.keys()):
        if hn == "$alive":
            continue
        if hn in ("$seq", "$dv", "$dh", "$dk") and croles is not None:
            old, new = ex.fresh_heap(st, hn)
            o = z3.Int(f"o!{next(_uid)}")
            notw = z3.And([role_of(o) != ex.rid(k) for k in sorted(croles)])
            st.assume(smt.forall([o], z3.Implies(notw, new[o] == old[o]), patterns=[new[o]]))
            continue
        base = hn[4:] if hn.startswith("has$") else hn
        if closure is not None and not base.startswith("$") and base not in ex.S.ghost:
            if base not in closure:
                keep.add(hn)
                continue
            owners = closure[base]
            if owners is not None and not hn.startswith("has$"):
                old, new = ex.fresh_heap(st, hn)
                fams = sorted({c2 for c in owners for c2 in ex.concrete_subclasses([c])})
                o = z3.Int(f"o!{next(_uid)}")
                notfam = z3.And([cls_of(o) != ex.cid(c) for c in fams]) if fams else z3.BoolVal(True)
                st.assume(smt.forall([o], z3.Implies(notfam, new[o] == old[o]), patterns=[new[o]]))
                continue
        ex.fresh_heap(st, hn)
    st.epoch = next(_uid) + 1
    if ex.writes is not None:
        ex.writes.add("*")
        k2 = {h for h in keep if not h.startswith("has$")}
        ex.star_keep = k2 if getattr(ex, "star_keep", None) is None else (ex.star_keep & k2)


def kinds_at_depth(ex, ty, depth, out):
    """container kinds found `depth` subscripts below a value of declared type ty (depth 0: ty itself)"""
    if ty is None:
        return
    if isinstance(ty, tuple):            # dict kind: (key type, value type) -- subscripting yields the value
        kinds_at_depth(ex, ty[1], depth, out)
        return
    if ty.kind in ("opt", "orfalse"):
        kinds_at_depth(ex, ty.args[0], depth, out)
        return
    if ty.kind == "union":
        for a in ty.args:
            kinds_at_depth(ex, a, depth, out)
        return
    if ty.kind in ("list", "dict"):
        if depth == 0:
            out.add(ty.name)
        else:
            kinds_at_depth(ex, ex.S.kinds.get(ty.name), depth - 1, out)
        return
    if ty.kind == "tup2":
        for a in ty.args:
            kinds_at_depth(ex, a, max(depth - 1, 0), out)
        return
    if ty.kind == "val":
        out.add("Any")
        out.add("Local")


def collect_kinds(ex, ty, out, depth=0):
    """all container kinds nested in a declared type (a list of lists, a dict of dicts ...)"""
    if ty is None or depth > 6:
        return
    if isinstance(ty, tuple):
        for t in ty:
            collect_kinds(ex, t, out, depth + 1)
        return
    if ty.kind in ("list", "dict"):
        if ty.name not in out:
            out.add(ty.name)
            collect_kinds(ex, ex.S.kinds.get(ty.name), out, depth + 1)
        return
    if ty.kind == "val":
        out.add("Any")      # an untyped slot may hold any local list
        return
    for a in getattr(ty, "args", []) or []:
        collect_kinds(ex, a, out, depth + 1)


class HeapDict(dict):
    """heap dictionary whose lazily created arrays are named by an epoch (after a '*' havoc)"""
    def __init__(self, d, epoch):
        super().__init__(d)
        self.epoch = epoch


def havoc_heap(ex, st, hn, preds, ovar, alive0):
    old, new = ex.fresh_heap(st, hn, preds=(preds, ovar) if preds is not None else None)
    o = z3.Int(f"o!{next(_uid)}")
    if hn.startswith("has$"):
        return
    if preds is not None:
        inmod = z3.Or([z3.substitute(p, (ovar, o)) for p in preds])
        st.assume(smt.forall([o], z3.Implies(z3.Not(inmod), new[o] == old[o]), patterns=[new[o]]))
    # attribute existence is monotone
    if not hn.startswith("$"):
        hname = "has$" + hn
        if hname in st.heap or True:
            ho, hnw = ex.fresh_heap(st, hname, preds=(preds, ovar) if preds is not None else None)
            st.assume(smt.forall([o], z3.Implies(ho[o], hnw[o]), patterns=[hnw[o]]))
            if preds is not None:
                inmod = z3.Or([z3.substitute(p, (ovar, o)) for p in preds])
                st.assume(smt.forall([o], z3.Implies(z3.Not(inmod), hnw[o] == ho[o]), patterns=[hnw[o]]))


# ==================================================================================================
#  builtins
# ==================================================================================================
def _args1(ex, st, e):
    return ex.ev_many(list(e.args) + [k.value for k in e.keywords], st)


def b_len(ex, st, e):
    out = []
    for s, vals in _args1(ex, st, e):
        if isinstance(vals, Exc):
            out.append((s, vals))
            continue
        x = vals[0]
        if x.k == "ref" and x.h is not None and x.h.kind == "dict":
            out.append((s, SV("int", Len(ex.heap_get(s, "$dk")[x.t]), T("int"))))
        elif x.k == "val" and x.h is not None and x.h.kind == "tup2":
            out.append((s, SV("int", z3.IntVal(2), T("int"))))
        elif x.k == "val" and x.h is not None and x.h.kind == "tupv":
            out.append((s, SV("int", Len(Val.ts(x.t)), T("int"))))
        elif x.k in ("ref", "seq", "val"):
            if x.k == "val":
                ex.oblige(s, "def", "len-of-sized", e, z3.And(Val.is_ref(x.t), cls_of(Val.o(x.t)) == ex.cid("LIST")))
            out.append((s, SV("int", Len(ex.seq_of(x, s, e)), T("int"))))
        else:
            ex.oblige(s, "def", "len-of-sized", e, z3.BoolVal(False))
            out.append((s, SV("int", fresh("len", I), T("int"))))
    return out


def b_float(ex, st, e):
    if len(e.args) == 1 and isinstance(e.args[0], ast.Constant) and isinstance(e.args[0].value, str):
        v = e.args[0].value.lower()
        if v in ("inf", "+inf", "infinity"):
            return [(st, SV("val", Val.pinf, T("num")))]
        if v in ("-inf",):
            return [(st, SV("val", Val.ninf, T("val")))]
        if v == "nan":
            return [(st, SV("val", Val.nanv, T("val")))]
    out = []
    for s, vals in _args1(ex, st, e):
        if isinstance(vals, Exc):
            out.append((s, vals))
            continue
        v = ex.to_val(vals[0])
        ex.oblige(s, "def", "float-of-number", e, z3.Or(smt.isfin(v), Val.is_pinf(v), Val.is_ninf(v)))
        out.append((s, SV("val", z3.If(smt.isfin(v), Val.realv(smt.numr(v)), v), T("num"))))
    return out


def b_int(ex, st, e):
    out = []
    for s, vals in _args1(ex, st, e):
        if isinstance(vals, Exc):
            out.append((s, vals))
            continue
        x = vals[0]
        if x.k == "int":
            out.append((s, x))
            continue
        v = ex.to_val(x)
        ex.oblige(s, "def", "int-of-finite-number", e, smt.isfin(v))
        # int() truncates towards zero
        r = smt.numr(v)
        t = z3.If(r >= 0, z3.ToInt(r), -z3.ToInt(-r))
        out.append((s, SV("int", t, T("int"))))
    return out


def b_str(ex, st, e):
    out = []
    for s, vals in _args1(ex, st, e):
        if isinstance(vals, Exc):
            out.append((s, vals))
            continue
        out.append((s, SV("str", StrOf(ex.to_val(vals[0])), T("str"))))
    return out


def b_isinstance(ex, st, e):
    out = []
    for s, x in ex.ev(e.args[0], st):
        if isinstance(x, Exc):
            out.append((s, x))
            continue
        cn = e.args[1]
        names = [c.id for c in cn.elts] if isinstance(cn, ast.Tuple) else [cn.id if isinstance(cn, ast.Name) else cn.attr]
        alts = []
        for n in names:
            if n in ex.P.classes:
                if x.k == "ref":
                    alts.append(ex.is_instance(x.t, [n]))
                elif x.k == "val":
                    alts.append(z3.And(Val.is_ref(x.t), ex.is_instance(Val.o(x.t), [n])))
                else:
                    alts.append(z3.BoolVal(False))
            elif n == "int":
                alts.append(z3.BoolVal(x.k in ("int", "bool")) if x.k != "val" else smt.isint(x.t))
            elif n == "float":
                alts.append(z3.BoolVal(False) if x.k != "val" else
                            z3.Or(Val.is_realv(x.t), Val.is_pinf(x.t), Val.is_ninf(x.t), Val.is_nanv(x.t)))
            elif n == "bool":
                alts.append(z3.BoolVal(x.k == "bool") if x.k != "val" else Val.is_boolv(x.t))
            elif n == "str":
                alts.append(z3.BoolVal(x.k == "str") if x.k != "val" else Val.is_strv(x.t))
            elif n == "list":
                if x.k == "ref":
                    alts.append(cls_of(x.t) == ex.cid("LIST"))
                elif x.k == "val":
                    alts.append(z3.And(Val.is_ref(x.t), cls_of(Val.o(x.t)) == ex.cid("LIST")))
                else:
                    alts.append(z3.BoolVal(False))
            else:
                raise Unsupported("isinstance of " + n, e)
        out.append((s, SV("bool", z3.Or(alts) if len(alts) > 1 else alts[0], T("bool"))))
    return out


def _minmax(is_max):
    def f(ex, st, e):
        key = None
        for k in e.keywords:
            if k.arg == "key":
                key = k.value
        out = []
        for s, vals in ex.ev_many(list(e.args), st):
            if isinstance(vals, Exc):
                out.append((s, vals))
                continue
            if len(vals) == 2:
                a, b = vals
                if a.k == "int" and b.k == "int":
                    c = (a.t >= b.t) if is_max else (a.t <= b.t)
                    out.append((s, SV("int", z3.If(c, a.t, b.t), T("int"))))
                else:
                    va, vb = ex.to_val(a), ex.to_val(b)
                    lt, d = smt.py_lt(vb, va) if not is_max else smt.py_lt(va, vb)
                    # max(a,b): b if a < b else a ; min(a,b): b if b < a else a
                    ex.oblige(s, "def", "minmax-operands-numeric", e, d)
                    out.append((s, SV("val", z3.If(lt, vb, va), a.h if repr(a.h) == repr(b.h) else None)))
                continue
            if len(vals) != 1:
                raise Unsupported("min/max arity", e)
            sq = ex.seq_of(vals[0], s, e)
            ety = ex.list_elem_ty(vals[0])
            ex.oblige(s, "def", ("max" if is_max else "min") + "-of-nonempty", e, Len(sq) > 0)
            r = fresh("mm", Val)
            j = z3.Int(f"j!{next(_uid)}")
            kfh = None
            if key is not None:
                kv = ex.ev1(key, s)
                if not isinstance(kv.h, FnHint):
                    raise Unsupported("min/max key not a lambda", e)
                kfh = kv.h
            s.assume(Contains(sq, r))
            s.assume(smt.index_fact(sq, r))
            rsv = ex.wrap_elem(r, ety, s)
            facts = []
            saved, savedd = ex.quant_facts, ex.defs_collector
            ex.quant_facts, ex.defs_collector = facts, []
            ex.spec_mode += 1
            try:
                s2 = s.copy()
                ej = ex.wrap_elem(At(sq, j), ety, s2)
                if kfh is not None:
                    kj = apply_lambda(ex, s2, kfh, [ej], e)
                    kr = apply_lambda(ex, s2, kfh, [rsv], e)
                else:
                    kj, kr = ej, rsv
            finally:
                ex.spec_mode -= 1
                ex.quant_facts, ex.defs_collector = saved, savedd
            le = key_le(ex, kj, kr) if is_max else key_le(ex, kr, kj)
            s.assume(smt.forall([j], z3.Implies(z3.And(0 <= j, j < Len(sq), *facts), le), patterns=[At(sq, j)]))
            # python's max/min return the FIRST extremal element
            idx = IndexOf(sq, r)
            if is_max:
                lt_strict = z3.Not(key_le(ex, kr, kj))
            else:
                lt_strict = z3.Not(key_le(ex, kj, kr))
            s.assume(smt.forall([j], z3.Implies(z3.And(0 <= j, j < idx, *facts), lt_strict), patterns=[At(sq, j)]))
            out.append((s, rsv))
        return out
    return f


def b_sum(ex, st, e):
    out = []
    for s, vals in _args1(ex, st, e):
        if isinstance(vals, Exc):
            out.append((s, vals))
            continue
        sq = ex.seq_of(vals[0], s, e)
        ety = ex.list_elem_ty(vals[0])
        if ety is not None and ety.kind == "int":
            out.append((s, SV("int", smt.SumI(sq), T("int"))))
        else:
            # float-world sum: int 0 for an empty list, else a real (dec handled as unsupported)
            k = z3.Int(f"k!{next(_uid)}")
            ex.oblige(s, "def", "sum-of-numbers", e,
                      smt.forall([k], z3.Implies(z3.And(0 <= k, k < Len(sq)), smt.isfin(At(sq, k))), patterns=[At(sq, k)]))
            out.append((s, SV("val", z3.If(Len(sq) == 0, Val.intv(0), Val.realv(smt.SumR(sq))), T("num"))))
    return out


def b_sorted(ex, st, e):
    kws = {k.arg: k.value for k in e.keywords}
    out = []
    for s, vals in ex.ev_many(list(e.args), st):
        if isinstance(vals, Exc):
            out.append((s, vals))
            continue
        sq = ex.seq_of(vals[0], s, e)
        ety = ex.list_elem_ty(vals[0])
        r = fresh("sorted", Seq)
        x = z3.Const(f"x!{next(_uid)}", Val)
        s.assume(Len(r) == Len(sq))
        s.assume(smt.forall([x], Contains(r, x) == Contains(sq, x), patterns=[Contains(r, x)]))
        s.assume(smt.forall([x], Contains(r, x) == Contains(sq, x), patterns=[Contains(sq, x)]))
        j = z3.Int(f"j!{next(_uid)}")
        s.assume(smt.forall([j], z3.Implies(z3.And(0 <= j, j < Len(r)), z3.And(Contains(sq, At(r, j)), smt.elem_fact(r, j))),
                            patterns=[At(r, j)]))
        # every member of the sorted list sits at some position of it (witness, scoped to this list),
        # and every position of the source has a position in the result
        s.assume(smt.forall([x], z3.Implies(Contains(r, x), At(r, IndexOf(r, x)) == x), patterns=[Contains(r, x)]))
        s.assume(smt.forall([x], z3.Implies(Contains(sq, x), At(sq, IndexOf(sq, x)) == x), patterns=[Contains(sq, x)]))
        pinv = z3.Function(f"pinv!{next(_uid)}", I, I)
        s.assume(smt.forall([j], z3.Implies(z3.And(0 <= j, j < Len(sq)),
                                            z3.And(0 <= pinv(j), pinv(j) < Len(r), At(r, pinv(j)) == At(sq, j))),
                            patterns=[At(sq, j)]))
        key = ex.ev1(kws["key"], s) if "key" in kws else None
        rev = ex.ev1(kws["reverse"], s) if "reverse" in kws else None
        _assume_sorted(ex, s, r, key, rev, ety, e)
        out.append((s, ex.new_list(s, r, ety)))
    return out


def b_range(ex, st, e):
    out = []
    for s, vals in _args1(ex, st, e):
        if isinstance(vals, Exc):
            out.append((s, vals))
            continue
        if len(vals) == 1:
            n = ex.as_int(vals[0], s, e, "range-arg")
            n = z3.If(n < 0, z3.IntVal(0), n)
            out.append((s, SV("seq", smt.Range(n), Ty("seq", args=[T("int")]))))
        elif len(vals) == 2:
            lo = ex.as_int(vals[0], s, e, "range-arg")
            hi = ex.as_int(vals[1], s, e, "range-arg")
            n = z3.If(hi - lo < 0, z3.IntVal(0), hi - lo)
            r = fresh("range", Seq)
            j = z3.Int(f"j!{next(_uid)}")
            s.assume(Len(r) == n)
            s.assume(smt.forall([j], z3.Implies(z3.And(0 <= j, j < n), At(r, j) == Val.intv(lo + j)), patterns=[At(r, j)]))
            out.append((s, SV("seq", r, Ty("seq", args=[T("int")]))))
        else:
            raise Unsupported("range with step", e)
    return out


def b_list(ex, st, e):
    out = []
    for s, vals in _args1(ex, st, e):
        if isinstance(vals, Exc):
            out.append((s, vals))
            continue
        if not vals:
            out.append((s, ex.new_list(s, Empty, None)))
        else:
            out.append((s, ex.new_list(s, ex.seq_of(vals[0], s, e), ex.list_elem_ty(vals[0]))))
    return out


def b_tuple(ex, st, e):
    out = []
    for s, vals in _args1(ex, st, e):
        if isinstance(vals, Exc):
            out.append((s, vals))
            continue
        out.append((s, SV("val", Val.tupv(ex.seq_of(vals[0], s, e)), Ty("tupv"))))
    return out


def b_set(ex, st, e):
    out = []
    for s, vals in _args1(ex, st, e):
        if isinstance(vals, Exc):
            out.append((s, vals))
            continue
        sq = ex.seq_of(vals[0], s, e)
        h = Ty("set")
        h.lit = ex.literal_seqs.get(vals[0].t.get_id()) if vals[0].k == "ref" else None
        out.append((s, SV("seq", sq, h)))
    return out


def b_isinf(ex, st, e):
    out = []
    for s, vals in _args1(ex, st, e):
        if isinstance(vals, Exc):
            out.append((s, vals))
            continue
        x = vals[0]
        if x.k in ("int", "bool"):
            out.append((s, SV("bool", z3.BoolVal(False), T("bool"))))
            continue
        v = ex.to_val(x)
        ex.oblige(s, "def", "isinf-of-number", e, smt.isext(v))
        out.append((s, SV("bool", z3.Or(Val.is_pinf(v), Val.is_ninf(v), Val.is_dpinf(v)), T("bool"))))
    return out


def b_decimal(ex, st, e):
    """Decimal(x): identity on dec/int; Decimal(str(float)) = Intended; Decimal(float) = BinExp"""
    arg = e.args[0]
    via_str = isinstance(arg, ast.Call) and isinstance(arg.func, ast.Name) and arg.func.id == "str"
    inner = arg.args[0] if via_str else arg
    if isinstance(inner, ast.Constant) and isinstance(inner.value, str):
        return [(st, SV("val", Val.decv(z3.RealVal(inner.value)), T("num")))]
    out = []
    for s, v in ex.ev(inner, st):
        if isinstance(v, Exc):
            out.append((s, v))
            continue
        t = ex.to_val(v)
        conv = Intended if via_str else BinExp
        ex.oblige(s, "def", "Decimal-of-number", e, z3.Or(smt.isext(t)))
        r = z3.If(Val.is_decv(t), t,
                  z3.If(smt.isint(t), Val.decv(z3.ToReal(smt.inti(t))),
                        z3.If(Val.is_realv(t), Val.decv(conv(Val.r(t))),
                              z3.If(z3.Or(Val.is_pinf(t), Val.is_dpinf(t)), Val.dpinf, Val.nanv))))
        out.append((s, SV("val", z3.simplify(r), T("num"))))
    return out


def b_next(ex, st, e):
    m = ex.S.externals.get("next")
    if m is None:
        raise Unsupported("next()", e)
    out = []
    for s, vals in _args1(ex, st, e):
        if isinstance(vals, Exc):
            out.append((s, vals))
            continue
        out.extend(m(ex, s, vals, {}, e))
    return out


def b_datarecord(ex, st, e):
    names = [k.arg for k in e.keywords]
    out = []
    for s, vals in ex.ev_many([k.value for k in e.keywords], st):
        if isinstance(vals, Exc):
            out.append((s, vals))
            continue
        rid = fresh("rec", I)
        for n, v in zip(names, vals):
            s.assume(ex.rec_field(n)(rid) == ex.to_val(v))
        out.append((s, SV("val", Val.recv(rid), T("rec"))))
    return out


BUILTINS = {
    "len": b_len, "float": b_float, "int": b_int, "str": b_str, "isinstance": b_isinstance,
    "min": _minmax(False), "max": _minmax(True), "sum": b_sum, "sorted": b_sorted, "range": b_range,
    "list": b_list, "tuple": b_tuple, "set": b_set, "isinf": b_isinf, "Decimal": b_decimal, "next": b_next,
    "DataRecord": b_datarecord,
}
