"""Spec-only functions available in contract clauses (requires / ensures / invariants).

Every clause is a Python expression.  Besides ordinary Python (attribute reads, arithmetic,
comparisons, `in`, `len`, indexing) these names are available:

  old(e)                      value of e in the function's pre-state
  result                      the returned value
  implies(a, b), iff(a, b)
  forall_int(lambda k: P)     for all integers k            exists_int likewise
  forall_in(lst, lambda x: P) for all elements of a list / sequence
  forall_idx(lst, lambda k, x: P)   same with the position
  exists_in(lst, lambda x: P)
  forall_obj('Cls', lambda o: P)    for all live instances of Cls (or a repo subclass)
  S(lst)                      the abstract sequence held by a list object (a value)
  append1(s, x) remove_at(s, k) remove1(s, x) take(s, n) drop(s, n) index_of(s, x) concat(s, t)
  nodup(lst)                  no element occurs twice
  is_int(v) is_real(v) is_number(v) is_none(v) is_false(v) is_dec(v) is_fin(v)
  cls_is(o, 'Cls')            o is exactly an instance of Cls
  alive(o), was_alive(o)      o is an allocated object (now / in the pre-state)
  same(f...)                  heap field(s) unchanged since the pre-state:  same('busy_time')
  ghost functions declared in contracts/ghost (e.g. loc(i))
"""
import ast
import z3
from . import smt
from .smt import Val, Seq, Len, At, Append1, RemoveAt, IndexOf, Contains, Take, Drop, Concat, Empty
from .types import Ty, parse as T
from .symexec import SV, Exc, Unsupported, State, fresh, cls_of, role_of, owner_of, I, B, R, _uid


def _b(t):
    return SV("bool", t, T("bool"))


def f_old(ex, st, e):
    old = ex.old_stack[-1]
    if old is None:
        raise Unsupported("old() outside a postcondition", e)
    heap, env, epoch = old
    s = State()
    s.heap = dict(heap)
    s.pc = st.pc
    s.known = st.known
    s.epoch = epoch
    s.env = dict(st.env)
    s.env.update(env)
    # lambda-bound variables of the enclosing quantifier stay visible
    for k, v in st.env.items():
        if k not in env:
            s.env[k] = v
    ex.old_stack.append(None)
    try:
        v = ex.ev1(e.args[0], s)
    finally:
        ex.old_stack.pop()
    # arrays created lazily while evaluating in the old heap must be remembered there
    for k, v2 in s.heap.items():
        if k not in heap:
            heap[k] = v2
            if k not in st.heap and epoch == getattr(st, "epoch", 0):
                st.heap[k] = v2
    return v


def f_implies(ex, st, e):
    a = ex.truthy(ex.ev1(e.args[0], st), st)
    st.guards.append(a)
    try:
        b = ex.truthy(ex.ev1(e.args[1], st), st)
    finally:
        st.guards.pop()
    return _b(z3.Implies(a, b))


def f_iff(ex, st, e):
    a = ex.truthy(ex.ev1(e.args[0], st), st)
    b = ex.truthy(ex.ev1(e.args[1], st), st)
    return _b(a == b)


def _quant(ex, st, lam, binders, guard_of, is_forall, patterns_of=None):
    """binders: list of (param name, SV) ; guard_of: z3 Bool guard"""
    if not isinstance(lam, ast.Lambda):
        raise Unsupported("quantifier body must be a lambda", lam)
    saved_env = dict(st.env)
    facts = []
    saved = ex.quant_facts
    ex.quant_facts = facts
    saved_b = ex.bound_vars
    ex.bound_vars = tuple(saved_b) + tuple(guard_of or ())
    try:
        for (p, sv) in binders:
            st.env[p] = sv
        body = ex.truthy(ex.ev1(lam.body, st), st)
    finally:
        ex.quant_facts = saved
        ex.bound_vars = saved_b
        st.env = saved_env
    return body, facts


def _consts(t):
    out = []
    stack = [t]
    while stack:
        x = stack.pop()
        if z3.is_const(x) and x.decl().kind() == z3.Z3_OP_UNINTERPRETED and "!" in x.decl().name():
            out.append(x)
        stack.extend(x.children())
    return out


def f_forall_int(ex, st, e, is_forall=True):
    lam = e.args[0]
    names = [a.arg for a in lam.args.args]
    vs = [z3.Int(f"{n}!q{len(ex.bound_vars)}") for n in names]
    binders = [(n, SV("int", v, T("int"))) for n, v in zip(names, vs)]
    body, facts = _quant(ex, st, lam, binders, vs, is_forall)
    f = z3.And(facts) if facts else z3.BoolVal(True)
    pats = _triggers(ex, st, e, binders)
    _side(ex, st, vs, f, pats)
    if is_forall:
        return _b(smt.forall(vs, z3.Implies(f, body), pats))
    return _b(smt.exists(vs, body, pats))


def _side(ex, st, vs, f, pats):
    """type facts about an existential's witness are universally valid (they are guarded by the
    conditions under which the value was read): assert them on the side instead of demanding a proof"""
    if z3.is_true(z3.simplify(f)):
        return
    g = smt.forall(vs, f, pats)
    if ex.quant_facts is not None:
        ex.quant_facts.append(g)
    else:
        st.add_fact(g)


def _triggers(ex, st, e, binders):
    """trigger=lambda vars: term   (or a tuple of terms = one multi-pattern)"""
    for kw in e.keywords:
        if kw.arg == "trigger":
            saved_env = dict(st.env)
            saved = ex.quant_facts
            ex.quant_facts = []
            try:
                for (p, sv) in binders:
                    st.env[p] = sv
                body = kw.value.body
                terms = body.elts if isinstance(body, ast.Tuple) else [body]
                ts = []
                for t in terms:
                    v = ex.ev1(t, st)
                    tt = v.t
                    # patterns on the element term itself, not on an accessor applied to it
                    while z3.is_app(tt) and tt.decl().kind() == z3.Z3_OP_DT_ACCESSOR:
                        tt = tt.arg(0)
                    ts.append(tt)
            finally:
                st.env = saved_env
                ex.quant_facts = saved
            return [z3.MultiPattern(*ts)] if len(ts) > 1 else ts
    return None


def f_exists_int(ex, st, e):
    return f_forall_int(ex, st, e, False)


def _elems(ex, st, e):
    base = ex.ev1(e.args[0], st)
    if base.k == "ref" and base.h is not None and base.h.kind == "dict":
        kd = ex.S.kinds.get(base.h.name)
        return ex.dict_keys(st, base.t), (kd[0] if isinstance(kd, tuple) else None)
    return ex.seq_of(base, st, e), ex.list_elem_ty(base)


def f_forall_in(ex, st, e, is_forall=True, with_idx=False):
    sq, ety = _elems(ex, st, e)
    lam = e.args[1]
    k = z3.Int(f"k!q{len(ex.bound_vars)}")
    names = [a.arg for a in lam.args.args]
    saved = ex.quant_facts
    ex.quant_facts = pre = []
    try:
        x = ex.wrap_elem(At(sq, k), ety, st)
        pre.append(smt.elem_fact(sq, k))
    finally:
        ex.quant_facts = saved
    binders = [(names[0], SV("int", k, T("int"))), (names[1], x)] if with_idx else [(names[0], x)]
    body, facts = _quant(ex, st, lam, binders, [k], is_forall)
    f = z3.And(pre + facts) if (pre + facts) else z3.BoolVal(True)
    rng = z3.And(0 <= k, k < Len(sq))
    _side(ex, st, [k], z3.Implies(rng, f), [At(sq, k)])
    # membership of the element is an antecedent only (as a side fact it would chain with the witness axiom)
    if is_forall:
        return _b(smt.forall([k], z3.Implies(z3.And(rng, f), body), patterns=[At(sq, k)]))
    return _b(smt.exists([k], z3.And(rng, body), [At(sq, k)]))


def f_forall_member(ex, st, e):
    """forall_member(lst, lambda x: P): for every value x that is a member of lst (membership-triggered:
    instantiated wherever `x in lst` is known, no position needed)"""
    sq, ety = _elems(ex, st, e)
    lam = e.args[1]
    x = z3.Const(f"m!q{len(ex.bound_vars)}", Val)
    name = lam.args.args[0].arg
    saved = ex.quant_facts
    ex.quant_facts = pre = []
    try:
        xsv = ex.wrap_elem(x, ety, st)
    finally:
        ex.quant_facts = saved
    body, facts = _quant(ex, st, lam, [(name, xsv)], [x], True)
    dom = Contains(sq, x)
    f = z3.And(pre + facts) if (pre + facts) else z3.BoolVal(True)
    _side(ex, st, [x], z3.Implies(dom, f), [Contains(sq, x)])
    return _b(smt.forall([x], z3.Implies(z3.And(dom, f), body), patterns=[Contains(sq, x)]))


def f_exists_in(ex, st, e):
    return f_forall_in(ex, st, e, False)


def f_forall_idx(ex, st, e):
    return f_forall_in(ex, st, e, True, True)


def f_forall_obj(ex, st, e, is_forall=True):
    cn = e.args[0].value
    lam = e.args[1]
    name = lam.args.args[0].arg
    o = z3.Int(f"{name}!q{len(ex.bound_vars)}")
    ty = Ty("obj", classes=cn.split("|"))
    alive = ex.named_heap(st, "$alive")
    dom = z3.And(alive[o], ex.is_instance(o, ty.classes))
    body, facts = _quant(ex, st, lam, [(name, SV("ref", o, ty))], [o], is_forall)
    f = z3.And([dom] + facts)
    pats = None
    for kw in e.keywords:
        if kw.arg == "trigger":
            saved_env = dict(st.env)
            saved = ex.quant_facts
            ex.quant_facts = []
            try:
                st.env[name] = SV("ref", o, ty)
                tv = ex.ev1(kw.value.body, st)
            finally:
                st.env = saved_env
                ex.quant_facts = saved
            pats = [tv.t]
    _side(ex, st, [o], z3.Implies(dom, z3.And(facts) if facts else z3.BoolVal(True)), pats or [alive[o]])
    if is_forall:
        if pats:
            return _b(smt.forall([o], z3.Implies(f, body), patterns=pats))
        return _b(smt.forall([o], z3.Implies(f, body), patterns=[alive[o]]))
    return _b(smt.exists([o], z3.And(dom, body), pats))


def f_exists_obj(ex, st, e):
    return f_forall_obj(ex, st, e, False)


def f_S(ex, st, e):
    v = ex.ev1(e.args[0], st)
    return SV("seq", ex.seq_of(v, st, e), Ty("seq", args=[ex.list_elem_ty(v)] if ex.list_elem_ty(v) else []))


def _seqarg(ex, st, a):
    v = ex.ev1(a, st)
    return ex.seq_of(v, st, a), v


def f_append1(ex, st, e):
    s, v = _seqarg(ex, st, e.args[0])
    x = ex.ev1(e.args[1], st)
    return SV("seq", Append1(s, ex.to_val(x)), v.h if v.k == "seq" else Ty("seq", args=[ex.list_elem_ty(v)] if ex.list_elem_ty(v) else []))


def f_remove_at(ex, st, e):
    s, v = _seqarg(ex, st, e.args[0])
    k = ex.ev1(e.args[1], st)
    return SV("seq", RemoveAt(s, ex.as_int(k, st, e)), Ty("seq", args=[ex.list_elem_ty(v)] if ex.list_elem_ty(v) else []))


def f_remove1(ex, st, e):
    s, v = _seqarg(ex, st, e.args[0])
    x = ex.to_val(ex.ev1(e.args[1], st))
    if not ex.mentions_bound(s) and not ex.mentions_bound(x):
        st.add_fact(smt.index_fact(s, x))
    return SV("seq", RemoveAt(s, IndexOf(s, x)), Ty("seq", args=[ex.list_elem_ty(v)] if ex.list_elem_ty(v) else []))


def f_take(ex, st, e):
    s, v = _seqarg(ex, st, e.args[0])
    n = ex.as_int(ex.ev1(e.args[1], st), st, e)
    return SV("seq", Take(s, n), Ty("seq", args=[ex.list_elem_ty(v)] if ex.list_elem_ty(v) else []))


def f_drop(ex, st, e):
    s, v = _seqarg(ex, st, e.args[0])
    n = ex.as_int(ex.ev1(e.args[1], st), st, e)
    return SV("seq", Drop(s, n), Ty("seq", args=[ex.list_elem_ty(v)] if ex.list_elem_ty(v) else []))


def f_concat(ex, st, e):
    s, v = _seqarg(ex, st, e.args[0])
    s2, _ = _seqarg(ex, st, e.args[1])
    return SV("seq", Concat(s, s2), Ty("seq", args=[ex.list_elem_ty(v)] if ex.list_elem_ty(v) else []))


def f_index_of(ex, st, e):
    s, v = _seqarg(ex, st, e.args[0])
    x = ex.to_val(ex.ev1(e.args[1], st))
    if not ex.mentions_bound(s) and not ex.mentions_bound(x):
        st.add_fact(smt.index_fact(s, x))
    return SV("int", IndexOf(s, x), T("int"))


def f_nodup(ex, st, e):
    s, v = _seqarg(ex, st, e.args[0])
    i, j = z3.Ints(f"i!{next(_uid)} j!{next(_uid)}")
    return _b(smt.forall([i, j], z3.Implies(z3.And(0 <= i, i < j, j < Len(s)), At(s, i) != At(s, j)),
                        patterns=[z3.MultiPattern(At(s, i), At(s, j))]))


def f_nodup_p(ex, st, e):
    """nodup_p(lst): the predicate NoDup of the prelude (structural axioms: Append1 / RemoveAt / positions); use it for lists that are
    built and taken apart element by element"""
    s, v = _seqarg(ex, st, e.args[0])
    return _b(smt.NoDup(s))


def f_sum_r(ex, st, e):
    s, v = _seqarg(ex, st, e.args[0])
    if False:
        pass
    return SV("val", Val.realv(smt.SumR(s)), T("num"))


def f_sum_i(ex, st, e):
    s, v = _seqarg(ex, st, e.args[0])
    return SV("int", smt.SumI(s), T("int"))


def f_psum(ex, st, e):
    s, v = _seqarg(ex, st, e.args[0])
    n = ex.as_int(ex.ev1(e.args[1], st), st, e)
    if not ex.mentions_bound(s) and not ex.mentions_bound(n):
        st.add_facts(smt.psum_facts(s, n))
    return SV("val", Val.realv(smt.PSum(s, n)), T("num"))


def f_psum_i(ex, st, e):
    s, v = _seqarg(ex, st, e.args[0])
    n = ex.as_int(ex.ev1(e.args[1], st), st, e)
    if not ex.mentions_bound(s) and not ex.mentions_bound(n):
        st.add_facts(smt.psumi_facts(s, n))
    return SV("int", smt.PSumI(s, n), T("int"))


def _valpred(fn):
    def f(ex, st, e):
        v = ex.ev1(e.args[0], st)
        return _b(fn(ex.to_val(v)))
    return f


def f_is_obj(ex, st, e):
    """is_obj(v, 'Cls'): v is a live instance of Cls (or a repo subclass)"""
    v = ex.to_val(ex.ev1(e.args[0], st))
    names = e.args[1].value.split("|")
    alive = ex.heap_get(st, "$alive")
    return _b(z3.And(Val.is_ref(v), alive[Val.o(v)], ex.is_instance(Val.o(v), names)))


def f_is_list(ex, st, e):
    v = ex.to_val(ex.ev1(e.args[0], st))
    alive = ex.heap_get(st, "$alive")
    return _b(z3.And(Val.is_ref(v), alive[Val.o(v)], cls_of(Val.o(v)) == ex.cid("LIST")))


def f_as_obj(ex, st, e):
    """as_obj(v, 'Cls'): view the value v as an instance of Cls (use under is_obj(v, 'Cls'))"""
    v = ex.ev1(e.args[0], st)
    names = e.args[1].value.split("|")
    r = ex.as_ref(v, st, e) if v.k != "ref" else v
    return SV("ref", r.t, Ty("obj", classes=names))


def f_as_list(ex, st, e):
    """as_list(v, 'Kind'): view the value v as a list whose elements have the element type of Kind"""
    v = ex.ev1(e.args[0], st)
    r = ex.as_ref(v, st, e) if v.k != "ref" else v
    if e.args[1].value == "Any" and r.h is not None and r.h.kind == "list":
        return r        # keep the more specific kind
    return SV("ref", r.t, Ty("list", name=e.args[1].value))


def f_cls_is(ex, st, e):
    o = ex.as_ref(ex.ev1(e.args[0], st), st, e)
    names = e.args[1].value.split("|")
    return _b(z3.Or([cls_of(o.t) == ex.cid(n) for n in names]))


def f_alive(ex, st, e):
    o = ex.as_ref(ex.ev1(e.args[0], st), st, e)
    return _b(ex.heap_get(st, "$alive")[o.t])


def f_was_alive(ex, st, e):
    o = ex.as_ref(ex.ev1(e.args[0], st), st, e)
    heap, env, epoch = ex.old_stack[-1]
    s = State()
    s.heap, s.epoch = heap, epoch
    return _b(ex.heap_get(s, "$alive")[o.t])


def f_alive_before_loop(ex, st, e):
    """alive_before_loop(o): o was already allocated when the innermost enclosing loop was entered"""
    o = ex.as_ref(ex.ev1(e.args[0], st), st, e)
    if not ex.loop_alive:
        raise Unsupported("alive_before_loop() outside a loop invariant", e)
    return _b(ex.loop_alive[-1][o.t])


def f_oldf(ex, st, e):
    """oldf(x, 'field'): the pre-state value of x.field, for an object x denoted in the CURRENT state"""
    o = ex.as_ref(ex.ev1(e.args[0], st), st, e)
    heap, env, epoch = ex.old_stack[-1]
    s = State()
    s.heap, s.epoch, s.pc, s.known = heap, epoch, st.pc, st.known
    saved = ex.old_stack
    return ex.read_field(s, o, e.args[1].value, e)


def f_nnodes(ex, st, e):
    from .symexec import NNODES
    return SV("int", NNODES, T("int"))


def f_same(ex, st, e):
    heap, env, epoch = ex.old_stack[-1]
    s = State()
    s.heap, s.epoch = heap, epoch
    conj = []
    for a in e.args:
        name = a.value
        conj.append(ex.heap_get(st, name) == ex.heap_get(s, name))
    return _b(z3.And(conj))


def f_has(ex, st, e):
    o = ex.as_ref(ex.ev1(e.args[0], st), st, e)
    name = e.args[1].value
    classes = ex.static_classes(o)
    concs = ex.concrete_subclasses(classes) if classes else []
    if concs and ex.fi.name != "__init__" and all(c in ex.P.classes and name in ex.P.init_assigned(c) for c in concs):
        return _b(z3.BoolVal(True))     # assigned unconditionally by every constructor of the static type (I-DEF)
    return _b(ex.heap_get(st, "has$" + name)[o.t])


def f_owner(ex, st, e):
    o = ex.as_ref(ex.ev1(e.args[0], st), st, e)
    return SV("ref", owner_of(o.t), None)


def f_gen_arg(ex, st, e):
    """gen_arg(g, 'param'): the argument a generator object under a `yields` contract was created with"""
    g = ex.ev1(e.args[0], st)
    if g.h is None or g.h.kind != "gen":
        raise Unsupported("gen_arg on a non-generator", e)
    from .calls import gen_ghost
    return SV("val", ex.heap_get(st, gen_ghost(g.h.name, e.args[1].value))[g.t], None)


def f_ref_eq(ex, st, e):
    a = ex.ev1(e.args[0], st)
    b = ex.ev1(e.args[1], st)
    return _b(ex.to_val(a) == ex.to_val(b))


def f_realv(ex, st, e):
    """real(x): numeric value of x as a mathematical real (spec arithmetic without Python typing)"""
    v = ex.ev1(e.args[0], st)
    return SV("val", Val.realv(smt.numr(ex.to_val(v))), T("num"))


SPEC_FUNCS = {
    "old": f_old, "implies": f_implies, "iff": f_iff,
    "forall_int": f_forall_int, "exists_int": f_exists_int,
    "forall_in": f_forall_in, "forall_member": f_forall_member, "exists_in": f_exists_in, "forall_idx": f_forall_idx,
    "forall_obj": f_forall_obj, "exists_obj": f_exists_obj,
    "S": f_S, "append1": f_append1, "remove_at": f_remove_at, "remove1": f_remove1, "take": f_take,
    "drop": f_drop, "concat": f_concat, "index_of": f_index_of, "nodup": f_nodup, "nodup_p": f_nodup_p,
    "sum_r": f_sum_r, "sum_i": f_sum_i, "psum": f_psum, "psum_i": f_psum_i,
    "is_int": _valpred(lambda v: Val.is_intv(v)), "is_intlike": _valpred(smt.isint), "is_real": _valpred(lambda v: Val.is_realv(v)),
    "is_number": _valpred(smt.is_number), "is_none": _valpred(lambda v: Val.is_none(v)),
    "is_false": _valpred(lambda v: v == Val.boolv(False)), "is_dec": _valpred(lambda v: z3.Or(Val.is_decv(v), Val.is_dpinf(v))),
    "is_fin": _valpred(smt.isfin), "is_time": _valpred(lambda v: z3.Or(Val.is_intv(v), Val.is_realv(v), Val.is_pinf(v), Val.is_decv(v), Val.is_dpinf(v))), "is_pinf": _valpred(lambda v: Val.is_pinf(v)),
    "is_ref": _valpred(lambda v: Val.is_ref(v)), "is_str": _valpred(lambda v: Val.is_strv(v)),
    "cls_is": f_cls_is, "is_obj": f_is_obj, "is_list": f_is_list, "as_obj": f_as_obj, "as_list": f_as_list, "alive": f_alive, "was_alive": f_was_alive, "oldf": f_oldf, "nnodes": f_nnodes, "alive_before_loop": f_alive_before_loop, "same": f_same, "has": f_has, "gen_arg": f_gen_arg,
    "owner": f_owner, "ref_eq": f_ref_eq, "real": f_realv,
}
