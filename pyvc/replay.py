"""Replay of a failed obligation on the real code (DESIGN 3.1).  Per-unit replay functions live in
contracts/replays.py; they build a concrete call of the REAL function from the solver's candidate
model (or search a small input space) and evaluate the violated clause natively."""
import importlib
import traceback


def attempt(prop, v):
    try:
        rp = importlib.import_module("contracts.replays")
    except Exception:
        return dict(confirmed=False, kind="none", transcript="no replay module")
    try:
        return rp.replay(prop, v)
    except Exception:
        return dict(confirmed=False, kind="error", transcript=traceback.format_exc())
