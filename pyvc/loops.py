"""Loop rule of pyvc (DESIGN 2.6): invariant at entry, havoc of what the body writes, assume
invariant + guard, execute body, assert invariant.  What the body writes is found by a trial
execution of the body with pruning off (all syntactic paths), so nothing has to be declared."""
import ast
import z3
from . import smt
from .smt import Val, Seq, Len, At
from .types import Ty, parse as T
from .symexec import SV, Exc, Unsupported, State, fresh, I, B, _uid
from . import calls


def loop_owner(ex, stmt):
    """(qualname, ordinal) of a loop statement within the function that syntactically contains it"""
    key = id(stmt)
    if key not in ex.loop_index:
        # index all loops of every function lazily
        for fi in list(ex.P.functions.values()) + [m for c in ex.P.classes.values() for m in c.methods.values()]:
            k = 0
            for n in ast.walk(fi.node):
                pass
            order = [n for n in _walk_in_order(fi.node) if isinstance(n, (ast.For, ast.While))]
            for k, n in enumerate(order):
                ex.loop_index[id(n)] = (fi.qualname, k)
    return ex.loop_index.get(key, (None, None))


def _walk_in_order(node):
    yield node
    for ch in ast.iter_child_nodes(node):
        yield from _walk_in_order(ch)


def assigned_names(stmts, env=None):
    """names (re)bound in stmts.  `x += ...` on a name currently bound to a list mutates in place."""
    out = []
    inplace = set()
    if env is not None:
        for st in stmts:
            for n in ast.walk(st):
                if isinstance(n, ast.AugAssign) and isinstance(n.target, ast.Name) and isinstance(n.op, ast.Add):
                    v = env.get(n.target.id)
                    if v is not None and v.k == "ref" and v.h is not None and v.h.kind == "list":
                        inplace.add(id(n.target))
    for st in stmts:
        for n in ast.walk(st):
            if isinstance(n, ast.Name) and isinstance(n.ctx, ast.Store) and n.id not in out and id(n) not in inplace:
                out.append(n.id)
            if isinstance(n, ast.Yield) and "_yielded" not in out:
                out.append("_yielded")       # ghost count of values yielded so far
    return out


def invariants_for(ex, stmt):
    q, k = loop_owner(ex, stmt)
    c = ex.S.contracts.get(ex.recv_cls + "::" + str(q)) if ex.recv_cls else None      # receiver-class run: its own invariants first
    if c is None:
        c = ex.S.contracts.get(q)
    invs = []
    if c is not None:
        invs = c.loop_invariants.get(k, [])
    return q, k, [(f"inv{n}", t) if not isinstance(t, tuple) else t for n, t in enumerate(invs)]


def trial(ex, st, run_body):
    """execute the body once with obligations suppressed and pruning off;
    returns (written heap names, end states, write log)"""
    ex.suppress += 1
    ex.noprune += 1
    saved, saved_log = ex.writes, ex.write_log
    ex.writes, ex.write_log = set(), []
    saved_keep = getattr(ex, "star_keep", None)
    ex.star_keep = None
    try:
        s = st.copy()
        ends = run_body(s)
        w, log = ex.writes, ex.write_log
    finally:
        ex.suppress -= 1
        ex.noprune -= 1
        if saved is not None:
            saved |= ex.writes
            saved_log.extend(ex.write_log)
        ex.writes, ex.write_log = saved, saved_log
        inner_keep = ex.star_keep
        ex.last_star_keep = inner_keep
        if saved is not None and "*" in w:
            ex.star_keep = inner_keep if saved_keep is None else ((saved_keep & inner_keep) if inner_keep is not None else saved_keep)
        else:
            ex.star_keep = saved_keep
    return w, ends, log


def _max_uid(t):
    """largest fresh-constant serial mentioned in term t (names look like base!N)"""
    best = -1
    seen = set()
    stack = [t]
    while stack:
        x = stack.pop()
        if x.get_id() in seen:
            continue
        seen.add(x.get_id())
        if z3.is_const(x) and x.decl().kind() == z3.Z3_OP_UNINTERPRETED:
            n = x.decl().name()
            if "!" in n:
                try:
                    best = max(best, int(n.rsplit("!", 1)[1]))
                except ValueError:
                    pass
        elif z3.is_quantifier(x):
            stack.append(x.body())
        stack.extend(x.children())
    return best


def proves_fresh(ex, pc, at, alive):
    """is the written object provably not alive in the heap whose alive-array is `alive`?"""
    from . import verify
    s = smt.new_solver(3000)
    goal = z3.Not(alive[at])
    for a in verify.relevant_axioms(pc, goal):
        s.add(a)
    for a in pc:
        s.add(a)
    s.add(alive[at])
    return s.check() == z3.unsat


_frame_memo = {}


def _proves_in_unit_frame(ex, pc, name, at, o=None):
    """if the unit's contract restricts writes of heap `name` to objects satisfying predicates P_i(o) (evaluated in the entry
    state) and the path condition proves Or_i P_i(at), return [P_i(o)] (for bound variable o) -- else None"""
    um = ex.unit_mods if getattr(ex, "unit_mods", None) else None
    if um is None:
        return None
    mods, ovar = um
    preds = mods.get(name[4:] if name.startswith("has$") else name)
    if not preds:
        return None
    key = (name, at.get_id(), len(pc))
    if key not in _frame_memo:
        from . import verify
        goal = z3.Or([z3.substitute(p, (ovar, at)) for p in preds])
        s = smt.new_solver(3000)
        for a in verify.relevant_axioms(pc, goal):
            s.add(a)
        for a in pc:
            s.add(a)
        s.add(z3.Not(goal))
        _frame_memo[key] = (s.check() == z3.unsat)
    if not _frame_memo[key]:
        return None
    if o is None:
        return True
    return [z3.substitute(p, (ovar, o)) for p in preds]


def _unit_mods(ex, st):
    if getattr(ex, "unit_mods", None) is None and getattr(ex, "unit_mods_src", None) is not None:
        from . import verify
        entry_heap, env, modifies = ex.unit_mods_src
        mods, star, ovar = calls.parse_modifies(ex, verify._mk_state(entry_heap, st), env, modifies)
        ex.unit_mods = (mods, ovar) if not star else False
        ex.unit_mods_src = None
    return ex.unit_mods or None


def _proves_pred_in_unit_frame(ex, pc, name, p, ovar):
    """does the path condition prove  forall o: p(o) ==> (some predicate of the unit's modifies clause for `name`)(o) ?"""
    um = ex.unit_mods if getattr(ex, "unit_mods", None) else None
    if um is None:
        return False
    mods, uov = um
    preds = mods.get(name[4:] if name.startswith("has$") else name)
    if not preds:
        return False
    key = ("pred", name, p.get_id(), len(pc))
    if key not in _frame_memo:
        from . import verify
        c = z3.Int(f"fc!{next(_uid)}")
        hyp = z3.substitute(p, (ovar, c))
        goal = z3.Or([z3.substitute(q, (uov, c)) for q in preds])
        s = smt.new_solver(3000)
        for a in verify.relevant_axioms(list(pc) + [hyp], goal):
            s.add(a)
        for a in pc:
            s.add(a)
        s.add(hyp)
        s.add(z3.Not(goal))
        _frame_memo[key] = (s.check() == z3.unsat)
    return _frame_memo[key]


def by_names(log):
    return {e[0] for e in log}


def refine_frame(ex, st, pre_heap, log, uid0, loop_elem=None):
    """after the coarse havoc: objects the body provably never writes keep their pre-loop contents.
    A logged write location counts as loop-invariant when its term mentions no constant created
    since the havoc (serial >= uid0): it then depends only on state the loop does not change."""
    from .symexec import role_of, owner_of
    _unit_mods(ex, st)
    alive_pre = pre_heap.get("$alive")
    summary = {}
    ex.last_frame_summary = summary
    if alive_pre is not None and "$alive" in by_names(log):
        # allocation only ever adds objects
        o = z3.Int(f"lo!{next(_uid)}")
        st.assume(smt.forall([o], z3.Implies(alive_pre[o], st.heap["$alive"][o]), [alive_pre[o]]))
        st.assume(smt.forall([o], z3.Implies(alive_pre[o], st.heap["$alive"][o]), [st.heap["$alive"][o]]))
        # ... and only objects of the classes the body allocates
        classes = set()
        for (name, at, hint, fresh_obj, preds, pc) in log:
            if name != "$alive" or classes is None:
                continue
            if isinstance(hint, str):
                classes.add(hint)
            elif isinstance(preds, tuple) and preds and preds[0] == "classes":
                if preds[1] is None:
                    classes = None
                else:
                    classes |= set(preds[1])
            else:
                classes = None
        if classes:
            from .symexec import cls_of
            okcls = z3.Or([cls_of(o) == ex.cid(n) for n in sorted(classes)])
            new_alive = st.heap["$alive"]
            st.assume(smt.forall([o], z3.Implies(z3.And(new_alive[o], z3.Not(alive_pre[o])), okcls), [new_alive[o]]))
    by_heap = {}
    for (name, at, hint, fresh_obj, preds, pc) in log:
        by_heap.setdefault(name, []).append((at, hint, fresh_obj, preds, pc))
    for name, entries in by_heap.items():
        if name == "$alive" or name not in pre_heap:
            continue
        o = z3.Int(f"lo!{next(_uid)}")
        conds = []
        ok = True
        for (at, hint, fresh_obj, preds, pc) in entries:
            if fresh_obj and ex.entry_alive is not None:
                if at is not None and alive_pre is not None and _max_uid(at) >= uid0:
                    conds.append(z3.Not(alive_pre[o]))          # allocated by the loop body itself
                else:
                    conds.append(z3.Not(ex.entry_alive[o]))     # allocated earlier in the current activation
                continue
            if isinstance(preds, tuple) and preds and preds[0] == "classes":
                continue
            if preds is not None:
                pl, ovar = preds
                for p in pl:
                    if _max_uid(p) < uid0:
                        conds.append(z3.substitute(p, (ovar, o)))
                    elif p.get_id() in ex.role_alt:
                        # the container written varies with the iteration: fall back on "some container of that kind"
                        conds.append(z3.substitute(ex.role_alt[p.get_id()], (ovar, o)))
                    elif pc is not None and _proves_pred_in_unit_frame(ex, pc, name, p, ovar):
                        # a callee's frame that varies with the iteration but always stays inside the unit's own frame for this field
                        um, uov = ex.unit_mods
                        conds.extend(z3.substitute(q, (uov, o)) for q in um.get(name[4:] if name.startswith("has$") else name))
                    else:
                        ok = False
                        break
                if not ok:
                    break
                continue
            if at is None:
                ok = False
                break
            if _max_uid(at) < uid0:
                conds.append(o == at)
            elif loop_elem is not None and at.eq(Val.o(At(loop_elem[0], loop_elem[1]))):
                # the object written is the loop variable itself: one of the elements of the iterated sequence
                conds.append(smt.Contains(loop_elem[0], Val.ref(o)))
            elif name == "$seq" and hint is not None and hint.kind == "list" and hint.name != "Any":
                conds.append(role_of(o) == ex.rid(hint.name))
            elif alive_pre is not None and z3.is_const(at) and at.decl().name().startswith("new_") and _max_uid(at) >= uid0:
                conds.append(z3.Not(alive_pre[o]))      # the written object is one this very iteration allocated (an allocation constant)
            elif pc is not None and alive_pre is not None and proves_fresh(ex, pc, at, alive_pre):
                conds.append(z3.Not(alive_pre[o]))      # written object was allocated during the loop
            elif pc is not None and ex.entry_alive is not None and proves_fresh(ex, pc, at, ex.entry_alive):
                conds.append(z3.Not(ex.entry_alive[o]))
            elif pc is not None and _proves_in_unit_frame(ex, pc, name, at) is not None:
                # the written object provably belongs to the set the unit's own `modifies` allows for this field:
                # the loop may have written any member of that set, nothing else
                conds.extend(_proves_in_unit_frame(ex, pc, name, at, o))
            else:
                ok = False
                break
        summary[name] = (conds if ok else None, o)
        if not ok:
            continue
        new = st.heap[name]
        old = pre_heap[name]
        written = z3.Or(conds) if conds else z3.BoolVal(False)
        guard = z3.Not(written)
        if alive_pre is not None:
            guard = z3.And(alive_pre[o], guard)
        st.assume(smt.forall([o], z3.Implies(guard, new[o] == old[o]), [new[o]]))


def havoc_locals(ex, st, names, ends):
    for n in names:
        if n not in st.env:
            continue
        cur = st.env[n]
        kinds = set()
        hints = set()
        for s2, oc in ends:
            if n in s2.env:
                kinds.add(s2.env[n].k)
                hints.add(repr(s2.env[n].h))
        kinds.add(cur.k)
        hints.add(repr(cur.h))
        all_fresh = cur.fresh and all(s2.env[n].fresh for s2, oc in ends if n in s2.env)
        if len(kinds) == 1 and len(hints) == 1:
            nv = SV(cur.k, fresh(n, ex.z3sort(cur.k)), cur.h)
            if all_fresh and cur.k == "ref" and ex.entry_alive is not None:
                # every value this local can take was allocated during the current activation
                nv.fresh = True
                st.assume(z3.Not(ex.entry_alive[nv.t]))
            if cur.h is not None:
                try:
                    p = ex.type_pred(cur.h, nv.t, st, "val" if (cur.k == "val") else None) if not (cur.k != "val" and cur.h.sort() == "val") else None
                    if p is not None:
                        st.assume(z3.simplify(p))
                except Unsupported:
                    pass
            st.env[n] = nv
        elif len(kinds) == 1:
            st.env[n] = SV(cur.k, fresh(n, ex.z3sort(cur.k)), None if cur.k in ("val", "ref") else cur.h)
            if cur.k == "ref":
                raise Unsupported(f"loop changes the static type of local {n}")
        else:
            st.env[n] = SV("val", fresh(n, Val), None)
            # the value before the loop must be viewed as a Val too (re-run by caller not needed:
            # all later uses go through Val operations)


def havoc_writes(ex, st, writes):
    if "*" in writes:
        keep = getattr(ex, "last_star_keep", None) or set()
        for hn in list(st.heap.keys()):
            if hn == "$alive" or hn in keep or (hn.startswith("has$") and hn[4:] in keep):
                continue
            ex.fresh_heap(st, hn)
        for (c, n) in ex.S.fields:
            if n in keep and n not in st.heap:
                ex.heap_get(st, n)
        st.epoch = next(_uid) + 1
        return
    for hn in sorted(writes):
        ex.fresh_heap(st, hn)


def check_invs(ex, st, invs, env_extra, kind, node):
    env = dict(st.env)
    env.update(env_extra)
    for lab, text in invs:
        ex.old_stack.append(ex.entry_old)
        try:
            g = calls.spec_eval(ex, st, env, text, old=ex.entry_old)
        finally:
            ex.old_stack.pop()
        ex.oblige(st, kind, lab, node, g)


def assume_invs(ex, st, invs, env_extra):
    env = dict(st.env)
    env.update(env_extra)
    for lab, text in invs:
        g = calls.spec_eval(ex, st, env, text, old=ex.entry_old)
        st.assume(g)
    # opt-in (contract option loop_assumes_inv): the structural invariants the unit assumes at its entry and at its internal
    # call sites (INV(...) requires) are also assumed at the head of its loops -- a loop head is an internal boundary of the
    # same kind; listed in the evidence like the call-site assumptions
    c = ex.contract_stack[0] if ex.contract_stack else None
    if c is not None and getattr(c, "loop_assumes_inv", False) and not ex.call_stack:
        e2 = dict(ex.entry_env)
        e2.update(env)
        for lab, text in c.requires:
            if lab.startswith("inv:"):
                st.assume(calls.spec_eval(ex, st, e2, text, old=ex.entry_old))
                ex.assumed_used.add(f"invariant {lab[4:]} is assumed at the loop heads of {c.target}")


def exec_for(ex, stmt, st):
    if stmt.orelse:
        raise Unsupported("for-else", stmt)
    if isinstance(stmt.iter, (ast.List, ast.Tuple)) and len(stmt.iter.elts) <= 8 and all(
            isinstance(e, ast.Constant) for e in stmt.iter.elts):
        return unrolled_for(ex, stmt, st)
    out = []
    for s, it in ex.ev(stmt.iter, st):
        if isinstance(it, Exc):
            out.append((s, ("raise", it)))
            continue
        out.extend(for_over(ex, stmt, s, it))
    return out


def unrolled_for(ex, stmt, st):
    """a loop over a literal list of constants is unrolled exactly (no invariant needed)"""
    states = [(st, None)]
    for elt in stmt.iter.elts:
        nxt = []
        for s, oc in states:
            if oc is not None:
                nxt.append((s, oc))
                continue
            v = ex.ev1(elt, s)
            ex.bind_target(s, stmt.target, v, stmt)
            for s2, oc2 in ex.exec_block(stmt.body, s):
                if oc2 is not None and oc2[0] == "continue":
                    oc2 = None
                nxt.append((s2, oc2))
        states = nxt
    out = []
    for s, oc in states:
        if oc is not None and oc[0] == "break":
            oc = None
        out.append((s, oc))
    return out


def for_over(ex, stmt, st, it):
    S0, ety = ex.iter_seq(it, st, stmt)
    q, k, invs = invariants_for(ex, stmt)
    lk = f"loop{k}" if q == ex.fi.qualname else f"{q}.loop{k}"
    heap_list = it if (it.k == "ref" and it.h is not None and it.h.kind == "list") else None

    def body_from(s, idx):
        # the index / iterated sequence of this loop stay visible to invariants of nested loops
        s.env[f"_i{k}"] = SV("int", idx, T("int"))
        s.env[f"_it{k}"] = SV("seq", S0, Ty("seq", args=[ety] if ety else []))
        s.assume(z3.Implies(z3.And(0 <= idx, idx < Len(S0)), smt.elem_fact(S0, idx)))
        x = ex.wrap_elem(At(S0, idx), ety, s)
        ex.bind_target(s, stmt.target, x, stmt)
        return ex.exec_block(stmt.body, s)

    kk = fresh("it", I)
    writes, ends, _ = trial(ex, st, lambda s: (s.assume(z3.And(0 <= kk, kk < Len(S0))), body_from(s, kk))[1])
    names = [n for n in assigned_names(stmt.body, st.env) + assigned_names([ast.Expr(stmt.target)])]
    # invariant at entry
    seqsv = SV("seq", S0, Ty("seq", args=[ety] if ety else []))
    ex.loop_alive.append(ex.named_heap(st, "$alive"))
    try:
        check_invs(ex, st, invs, {"_i": SV("int", z3.IntVal(0), T("int")), "_it": seqsv}, lk + "-init", stmt)
    finally:
        ex.loop_alive.pop()
    # havoc
    ex.named_heap(st, "$alive")
    for _w in writes:
        if _w != "*" and _w not in st.heap:
            ex.heap_get(st, _w)         # a heap first touched inside the loop: materialise its pre-loop value so the frame can refer to it
    pre_heap = dict(st.heap)
    pre_heap["$alive"] = ex.named_heap(st, "$alive")
    ex.loop_alive.append(pre_heap["$alive"])
    try:
        return _for_over2(ex, stmt, st, it, S0, ety, q, k, invs, lk, heap_list, body_from, writes, ends, names, seqsv, pre_heap)
    finally:
        ex.loop_alive.pop()


def _for_over2(ex, stmt, st, it, S0, ety, q, k, invs, lk, heap_list, body_from, writes, ends, names, seqsv, pre_heap):
    uid0 = next(_uid)
    havoc_locals(ex, st, names, ends)
    havoc_writes(ex, st, writes)
    i = fresh("_i", I)
    st.assume(z3.And(0 <= i, i <= Len(S0)))
    isv = SV("int", i, T("int"))
    assume_invs(ex, st, invs, {"_i": isv, "_it": seqsv})
    nomutate_by_frame = False
    if "*" not in writes:
        _, _, log = trial(ex, st, lambda s: (s.assume(i < Len(S0)), body_from(s, i))[1])
        refine_frame(ex, st, pre_heap, log, uid0, loop_elem=(S0, i))
        if heap_list is not None:
            ent = ex.last_frame_summary.get("$seq")
            if "$seq" not in by_names(log):
                nomutate_by_frame = True        # the body writes no list at all
            elif ent is not None and ent[0] is not None:
                # every list the body writes satisfies `written(o)`; the iterated list must not
                conds, ov = ent
                written = z3.Or([z3.substitute(c, (ov, heap_list.t)) for c in conds]) if conds else z3.BoolVal(False)
                ex.oblige(st, lk + "-nomutate", "iterated-list-is-not-among-the-lists-the-body-writes", stmt,
                          z3.And(pre_heap["$alive"][heap_list.t], z3.Not(written)))
                nomutate_by_frame = True
    out = []
    # iteration path
    s_it = st.copy()
    s_it.assume(i < Len(S0))
    for s2, oc in body_from(s_it, i):
        if oc is None or oc[0] == "continue":
            if heap_list is not None and not nomutate_by_frame:
                ex.oblige(s2, lk + "-nomutate", "iterated-list-unchanged", stmt,
                          ex.heap_get(s2, "$seq")[heap_list.t] == S0)
            check_invs(ex, s2, invs, {"_i": SV("int", i + 1, T("int")), "_it": seqsv}, lk + "-step", stmt)
        elif oc[0] == "break":
            out.append((s2, None))
        else:
            out.append((s2, oc))
    # exit path
    s_ex = st.copy()
    s_ex.assume(i == Len(S0))
    out.append((s_ex, None))
    return out


def exec_while(ex, stmt, st):
    if stmt.orelse:
        raise Unsupported("while-else", stmt)
    q, k, invs = invariants_for(ex, stmt)
    lk = f"loop{k}" if q == ex.fi.qualname else f"{q}.loop{k}"

    def iteration(s):
        res = []
        for s1, c in ex.ev(stmt.test, s):
            if isinstance(c, Exc):
                res.append((s1, ("raise", c)))
                continue
            for s2, tv in ex.branch(s1, ex.truthy(c, s1)):
                if tv:
                    for s3, oc in ex.exec_block(stmt.body, s2):
                        res.append((s3, oc if oc is not None else ("continue",)))
                else:
                    res.append((s2, ("exit",)))
        return res

    writes, ends, _ = trial(ex, st, iteration)
    names = assigned_names(stmt.body, st.env)
    check_invs(ex, st, invs, {}, lk + "-init", stmt)
    ex.named_heap(st, "$alive")
    for _w in writes:
        if _w != "*" and _w not in st.heap:
            ex.heap_get(st, _w)
    pre_heap = dict(st.heap)
    pre_heap["$alive"] = ex.named_heap(st, "$alive")
    uid0 = next(_uid)
    havoc_locals(ex, st, names, [(s, oc) for s, oc in ends if oc and oc[0] == "continue"])
    havoc_writes(ex, st, writes)
    if "*" not in writes:
        _, _, log = trial(ex, st, iteration)
        refine_frame(ex, st, pre_heap, log, uid0)
    assume_invs(ex, st, invs, {})
    out = []
    for s2, oc in iteration(st):
        if oc[0] == "continue":
            check_invs(ex, s2, invs, {}, lk + "-step", stmt)
        elif oc[0] in ("exit", "break"):
            out.append((s2, None))
        else:
            out.append((s2, oc))
    return out
