"""Front end of pyvc: reads /repo/ciw/*.py on every run, builds the class table (MRO, methods,
properties), the module-level function table, per-class sets of attributes unconditionally assigned
by __init__, and source hashes.  Nothing here is cached between runs.

What the extraction drops (stated in DESIGN.md 2.2): docstrings, __repr__, type annotations, imports,
module-level statements other than def/class/simple constant assignment.
"""
import ast
import hashlib
import os

REPO = os.environ.get("PYVC_REPO", "/repo")

MODULES = [
    "ciw/node.py", "ciw/arrival_node.py", "ciw/exit_node.py", "ciw/simulation.py",
    "ciw/processor_sharing.py", "ciw/exactnode.py", "ciw/schedules.py", "ciw/auxiliary.py",
    "ciw/disciplines.py", "ciw/individual.py", "ciw/server.py", "ciw/data_record.py",
    "ciw/network.py", "ciw/import_params.py", "ciw/routing/routing.py",
    "ciw/trackers/state_tracker.py", "ciw/deadlock/deadlock_detector.py", "ciw/dists/distributions.py",
]


class FuncInfo:
    def __init__(self, name, node, cls, module, path):
        self.name = name
        self.node = node              # ast.FunctionDef
        self.cls = cls                # owning class name or None
        self.module = module
        self.path = path
        self.is_property = any(isinstance(d, ast.Name) and d.id == "property" for d in node.decorator_list)
        self.params = [a.arg for a in node.args.args]
        nd = len(node.args.defaults)
        self.defaults = {}
        for a, d in zip(node.args.args[len(node.args.args) - nd:], node.args.defaults):
            self.defaults[a.arg] = d
        self.src_hash = hashlib.sha256(ast.dump(node, include_attributes=False).encode()).hexdigest()[:16]

    @property
    def qualname(self):
        return (self.cls + "." if self.cls else "") + self.name

    def body(self):
        b = self.node.body
        if b and isinstance(b[0], ast.Expr) and isinstance(b[0].value, ast.Constant) and isinstance(b[0].value.value, str):
            b = b[1:]
        return b


class ClassInfo:
    def __init__(self, name, bases, module):
        self.name = name
        self.bases = bases
        self.module = module
        self.methods = {}


class Program:
    def __init__(self, repo=None):
        self.repo = repo or REPO
        self.classes = {}
        self.functions = {}      # module-level functions by name
        self.sources = {}
        for rel in MODULES:
            path = os.path.join(self.repo, rel)
            with open(path) as f:
                src = f.read()
            self.sources[rel] = src
            tree = ast.parse(src, filename=path)
            for st in tree.body:
                if isinstance(st, ast.ClassDef):
                    bases = [b.id if isinstance(b, ast.Name) else (b.attr if isinstance(b, ast.Attribute) else "?")
                             for b in st.bases]
                    ci = ClassInfo(st.name, [b for b in bases if b != "object"], rel)
                    for m in st.body:
                        if isinstance(m, ast.FunctionDef):
                            ci.methods[m.name] = FuncInfo(m.name, m, st.name, rel, path)
                    self.classes[st.name] = ci
                elif isinstance(st, ast.FunctionDef):
                    self.functions[st.name] = FuncInfo(st.name, st, None, rel, path)

    def mro(self, cls):
        out = [cls]
        ci = self.classes.get(cls)
        if ci:
            for b in ci.bases:
                for c in self.mro(b):
                    if c not in out:
                        out.append(c)
        return out

    def subclasses(self, cls):
        return [c for c in self.classes if cls in self.mro(c)]

    def lookup(self, cls, name):
        for c in self.mro(cls):
            ci = self.classes.get(c)
            if ci and name in ci.methods:
                return ci.methods[name]
        return None

    def lookup_after(self, cls, owner, name):
        """super() lookup: the method `name` in the MRO of cls after class `owner`."""
        m = self.mro(cls)
        for c in m[m.index(owner) + 1:]:
            ci = self.classes.get(c)
            if ci and name in ci.methods:
                return ci.methods[name]
        return None

    def get(self, qualname):
        if "." in qualname:
            c, n = qualname.split(".", 1)
            return self.lookup(c, n)
        return self.functions.get(qualname)

    # -------- attributes unconditionally assigned by __init__ (I-DEF support) -----------------------
    def init_assigned(self, cls):
        """Set of attribute names that cls.__init__ (following super().__init__ calls that occur
        unconditionally at top level) assigns on every path.  Conservative: only top-level
        statements and if/else where both branches assign count."""
        fi = self.lookup(cls, "__init__")
        if fi is None:
            return set()
        return self._assigned_in(fi.body(), cls, fi.cls)

    def _assigned_in(self, stmts, cls, owner):
        out = set()
        for st in stmts:
            if isinstance(st, ast.Assign):
                for t in st.targets:
                    if isinstance(t, ast.Attribute) and isinstance(t.value, ast.Name) and t.value.id == "self":
                        out.add(t.attr)
            elif isinstance(st, ast.If):
                a = self._assigned_in(st.body, cls, owner)
                b = self._assigned_in(st.orelse, cls, owner)
                out |= (a & b)
            elif isinstance(st, ast.Expr) and isinstance(st.value, ast.Call):
                f = st.value.func
                if (isinstance(f, ast.Attribute) and f.attr == "__init__" and isinstance(f.value, ast.Call)
                        and isinstance(f.value.func, ast.Name) and f.value.func.id == "super"):
                    sup = self.lookup_after(cls, owner, "__init__")
                    if sup:
                        out |= self._assigned_in(sup.body(), cls, sup.cls)
                elif isinstance(f, ast.Attribute) and isinstance(f.value, ast.Name) and f.value.id == "self":
                    # self.helper() called unconditionally from __init__ (e.g. set_classes)
                    h = self.lookup(cls, f.attr)
                    if h and h.name != "__init__":
                        out |= self._assigned_in(h.body(), cls, h.cls)
        return out

    def tree_hash(self):
        h = hashlib.sha256()
        for rel in MODULES:
            h.update(self.sources[rel].encode())
        return h.hexdigest()[:16]
