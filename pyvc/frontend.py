"""Front end of pyvc: reads /repo/ciw/*.py on every run, builds the class table (MRO, methods,
properties), the module-level function table, per-class sets of attributes unconditionally assigned
by __init__, and source hashes.  Nothing here is cached between runs.

What the extraction drops (stated in DESIGN.md 2.2): docstrings, __repr__, type annotations, imports,
module-level statements other than def/class/simple constant assignment.
"""
import ast
import hashlib
import os

REPO = os.environ.get("PYVC_REPO", "/repo")

MODULES = [
    "ciw/node.py", "ciw/arrival_node.py", "ciw/exit_node.py", "ciw/simulation.py",
    "ciw/processor_sharing.py", "ciw/exactnode.py", "ciw/schedules.py", "ciw/auxiliary.py",
    "ciw/disciplines.py", "ciw/individual.py", "ciw/server.py", "ciw/data_record.py",
    "ciw/network.py", "ciw/import_params.py", "ciw/routing/routing.py",
    "ciw/trackers/state_tracker.py", "ciw/deadlock/deadlock_detector.py", "ciw/dists/distributions.py",
]


class FuncInfo:
    def __init__(self, name, node, cls, module, path):
        self.name = name
        self.node = node              # ast.FunctionDef
        self.cls = cls                # owning class name or None
        self.module = module
        self.path = path
        self.is_property = any(isinstance(d, ast.Name) and d.id == "property" for d in node.decorator_list)
        self.params = [a.arg for a in node.args.args]
        nd = len(node.args.defaults)
        self.defaults = {}
        for a, d in zip(node.args.args[len(node.args.args) - nd:], node.args.defaults):
            self.defaults[a.arg] = d
        self.src_hash = hashlib.sha256(ast.dump(node, include_attributes=False).encode()).hexdigest()[:16]

    @property
    def qualname(self):
        return (self.cls + "." if self.cls else "") + self.name

    def body(self):
        b = self.node.body
        if b and isinstance(b[0], ast.Expr) and isinstance(b[0].value, ast.Constant) and isinstance(b[0].value.value, str):
            b = b[1:]
        return b


class ClassInfo:
    def __init__(self, name, bases, module):
        self.name = name
        self.bases = bases
        self.module = module
        self.methods = {}


class Program:
    def __init__(self, repo=None):
        self.repo = repo or REPO
        self.classes = {}
        self.functions = {}      # module-level functions by name
        self.sources = {}
        for rel in MODULES:
            path = os.path.join(self.repo, rel)
            with open(path) as f:
                src = f.read()
            self.sources[rel] = src
            tree = ast.parse(src, filename=path)
            for st in tree.body:
                if isinstance(st, ast.ClassDef):
                    bases = [b.id if isinstance(b, ast.Name) else (b.attr if isinstance(b, ast.Attribute) else "?")
                             for b in st.bases]
                    ci = ClassInfo(st.name, [b for b in bases if b != "object"], rel)
                    for m in st.body:
                        if isinstance(m, ast.FunctionDef):
                            ci.methods[m.name] = FuncInfo(m.name, m, st.name, rel, path)
                    self.classes[st.name] = ci
                elif isinstance(st, ast.FunctionDef):
                    self.functions[st.name] = FuncInfo(st.name, st, None, rel, path)

    def mro(self, cls):
        out = [cls]
        ci = self.classes.get(cls)
        if ci:
            for b in ci.bases:
                for c in self.mro(b):
                    if c not in out:
                        out.append(c)
        return out

    def subclasses(self, cls):
        return [c for c in self.classes if cls in self.mro(c)]

    def lookup(self, cls, name):
        for c in self.mro(cls):
            ci = self.classes.get(c)
            if ci and name in ci.methods:
                return ci.methods[name]
        return None

    def lookup_after(self, cls, owner, name):
        """super() lookup: the method `name` in the MRO of cls after class `owner`."""
        m = self.mro(cls)
        for c in m[m.index(owner) + 1:]:
            ci = self.classes.get(c)
            if ci and name in ci.methods:
                return ci.methods[name]
        return None

    def get(self, qualname):
        if "." in qualname:
            c, n = qualname.split(".", 1)
            return self.lookup(c, n)
        return self.functions.get(qualname)

    # -------- attributes unconditionally assigned by __init__ (I-DEF support) -----------------------
    def init_assigned(self, cls):
        """Set of attribute names that cls.__init__ (following super().__init__ calls that occur
        unconditionally at top level) assigns on every path.  Conservative: only top-level
        statements and if/else where both branches assign count."""
        fi = self.lookup(cls, "__init__")
        if fi is None:
            return set()
        return self._assigned_in(fi.body(), cls, fi.cls)

    def _assigned_in(self, stmts, cls, owner):
        out = set()
        for st in stmts:
            if isinstance(st, ast.Assign):
                for t in st.targets:
                    if isinstance(t, ast.Attribute) and isinstance(t.value, ast.Name) and t.value.id == "self":
                        out.add(t.attr)
            elif isinstance(st, ast.If):
                a = self._assigned_in(st.body, cls, owner)
                b = self._assigned_in(st.orelse, cls, owner)
                out |= (a & b)
            elif isinstance(st, ast.Expr) and isinstance(st.value, ast.Call):
                f = st.value.func
                if (isinstance(f, ast.Attribute) and f.attr == "__init__" and isinstance(f.value, ast.Call)
                        and isinstance(f.value.func, ast.Name) and f.value.func.id == "super"):
                    sup = self.lookup_after(cls, owner, "__init__")
                    if sup:
                        out |= self._assigned_in(sup.body(), cls, sup.cls)
                elif isinstance(f, ast.Attribute) and isinstance(f.value, ast.Name) and f.value.id == "self":
                    # self.helper() called unconditionally from __init__ (e.g. set_classes)
                    h = self.lookup(cls, f.attr)
                    if h and h.name != "__init__":
                        out |= self._assigned_in(h.body(), cls, h.cls)
        return out

    # -------- syntactic write closure: what a call graph can possibly write ------------------------------
    LIST_MUTATORS = {"append", "remove", "pop", "sort", "insert", "extend", "clear", "reverse"}

    def _local_effects(self, fi):
        """(attribute names stored, method / function names called, mutates-a-container?) for one function"""
        key = id(fi.node)
        cache = self.__dict__.setdefault("_eff_cache", {})
        if key in cache:
            return cache[key]
        attrs, called, mut = set(), set(), False
        cont = set()        # attribute names through which a mutated container is reached; None inside = unknown

        fresh_locals = self._fresh_container_locals(fi)

        def reach(t):
            """the attribute through which the container expression t is reached, 'Local' for a list that is
            certainly created in this function, None if unknown"""
            depth = 0
            while isinstance(t, ast.Subscript):
                t = t.value
                depth += 1
            if isinstance(t, ast.Attribute):
                return (t.attr, depth)
            if isinstance(t, ast.Name) and t.id in fresh_locals:
                return "$Local"
            if isinstance(t, (ast.List, ast.ListComp, ast.Dict)):
                return "$Local"
            return None

        ptypes = self.param_types(fi) if getattr(self, "param_types", None) else {}

        def owner(t):
            # `self.attr = ...` inside a method of class C writes an object of C's family; a parameter whose
            # class is declared in the function's contract writes an object of that class
            if isinstance(t.value, ast.Name) and t.value.id == "self" and fi.cls is not None:
                return fi.cls
            if isinstance(t.value, ast.Name) and t.value.id in ptypes:
                return ptypes[t.value.id]
            return None
        for n in ast.walk(fi.node):
            if isinstance(n, ast.Attribute) and isinstance(n.ctx, (ast.Store, ast.Del)):
                attrs.add((owner(n), n.attr))
            elif isinstance(n, ast.Subscript) and isinstance(n.ctx, (ast.Store, ast.Del)):
                mut = True
                cont.add(reach(n.value))
            elif isinstance(n, ast.AugAssign):
                if isinstance(n.target, ast.Attribute):
                    attrs.add((owner(n.target), n.target.attr))
                elif isinstance(n.target, ast.Subscript):
                    mut = True
                    cont.add(reach(n.target.value))
                elif isinstance(n.target, ast.Name) and isinstance(n.op, ast.Add):
                    # `x += [..]` mutates in place when x is a list: a list created here, or possibly a parameter
                    if n.target.id in fresh_locals:
                        mut = True
                        cont.add("$Local")
                    elif n.target.id in fi.params:
                        mut = True
                        cont.add(None)
            elif isinstance(n, ast.Call):
                f = n.func
                nargs = len(n.args) + len(n.keywords)
                if isinstance(f, ast.Attribute):
                    recv = None
                    if isinstance(f.value, ast.Name) and f.value.id == "self" and fi.cls is not None:
                        recv = fi.cls
                    elif isinstance(f.value, ast.Name) and f.value.id in ptypes:
                        recv = ptypes[f.value.id]
                    called.add((f.attr, nargs, recv))
                    if f.attr in self.LIST_MUTATORS:
                        mut = True
                        cont.add(reach(f.value))
                elif isinstance(f, ast.Name):
                    called.add((f.id, nargs, None))
        cache[key] = (attrs, called, mut, cont)
        return cache[key]

    def _fresh_container_locals(self, fi):
        """local names that are only ever bound to containers created in this function"""
        binds = {}
        params = set(fi.params)
        for n in ast.walk(fi.node):
            if isinstance(n, ast.Assign):
                for t in n.targets:
                    if isinstance(t, ast.Name):
                        v = n.value
                        ok = isinstance(v, (ast.List, ast.ListComp, ast.Dict, ast.DictComp)) or (
                            isinstance(v, ast.Call) and isinstance(v.func, ast.Name) and v.func.id in ("list", "sorted", "dict", "set")) or (
                            isinstance(v, ast.Subscript) and isinstance(v.slice, ast.Slice))
                        binds.setdefault(t.id, []).append(ok)
            elif isinstance(n, (ast.For, ast.comprehension)):
                t = n.target
                for x in ast.walk(t):
                    if isinstance(x, ast.Name):
                        binds.setdefault(x.id, []).append(False)
        return {k for k, v in binds.items() if all(v) and k not in params}

    def write_closure(self, fi):
        """attribute names (and whether containers) that fi or anything it may call -- resolved by NAME over
        every repo class, i.e. a syntactic over-approximation of dynamic dispatch -- can write.  A call to
        a name that is not a repo function (a user callable, a library) makes the closure open (None)."""
        cache = self.__dict__.setdefault("_wc_cache", {})
        key = id(fi.node)
        if key in cache:
            return cache[key]
        by_name = self.__dict__.get("_by_name")
        if by_name is None:
            by_name = {}
            for c in self.classes.values():
                for m in c.methods.values():
                    by_name.setdefault(m.name, []).append(m)
            for f in self.functions.values():
                by_name.setdefault(f.name, []).append(f)
            for cname in self.classes:
                init = self.classes[cname].methods.get("__init__")
                if init is not None:
                    by_name.setdefault(cname, []).append(init)
            self.__dict__["_by_name"] = by_name
        attrs, mut = {}, set()
        seen, stack = set(), [fi]
        while stack:
            g = stack.pop()
            if id(g.node) in seen:
                continue
            seen.add(id(g.node))
            a, called, m, cont = self._local_effects(g)
            mut |= cont
            for (own, name) in a:
                # attr -> set of owner classes, or None when some write has an unknown receiver
                if own is None:
                    attrs[name] = None
                elif attrs.get(name, set()) is not None:
                    attrs.setdefault(name, set()).add(own)
            for (name, nargs, recv) in called:
                for h in by_name.get(name, []):
                    # arity filter: the callee must be able to take that many arguments
                    hp = [p for p in h.params if p != "self"]
                    required = len(hp) - len(h.defaults)
                    if h.node.args.kwarg is None and h.node.args.vararg is None and not (required <= nargs <= len(hp)):
                        continue
                    # receiver filter: a call on `self` (or on a parameter of declared class) reaches that class family only
                    if recv is not None and h.cls is not None:
                        fam = set(self.mro(recv)) | set(self.subclasses(recv))
                        if h.cls not in fam:
                            continue
                    stack.append(h)
        cache[key] = (attrs, mut)
        return cache[key]

    def tree_hash(self):
        h = hashlib.sha256()
        for rel in MODULES:
            h.update(self.sources[rel].encode())
        return h.hexdigest()[:16]
