"""Type descriptors for the typed heap of pyvc.

A field / parameter / result type is written as a small string:
    int | bool | str | val | date | num | intinf | fn | none
    obj:A|B          reference to an instance of A or B (or a repo subclass), never None
    list:Kind        reference to a list object of the given list kind (see KINDS in contracts/types)
    dict:Kind        reference to a dict object of the given dict kind
    opt:T            None or T           (Val sort)
    orfalse:T        False or T          (Val sort)
    tup2:T1,T2       a 2-tuple           (Val sort)
    T1 || T2         union               (Val sort)
The *sort* of a type decides the heap representation: int -> Int, bool -> Bool, str -> Int (atom),
obj/list/dict -> Int (reference), everything else -> Val.
"""
import z3
from . import smt
from .smt import Val


class Ty:
    def __init__(self, kind, classes=None, name=None, args=None):
        self.kind = kind
        self.classes = classes or []
        self.name = name
        self.args = args or []

    def __repr__(self):
        if self.kind == "obj":
            return "obj:" + "|".join(self.classes)
        if self.kind in ("list", "dict"):
            return f"{self.kind}:{self.name}"
        if self.kind in ("opt", "orfalse"):
            return f"{self.kind}:{self.args[0]}"
        if self.kind == "tup2":
            return f"tup2:{self.args[0]},{self.args[1]}"
        if self.kind == "union":
            return " || ".join(map(repr, self.args))
        return self.kind

    def sort(self):
        if self.kind in ("int", "bool", "str"):
            return self.kind
        if self.kind in ("obj", "list", "dict", "gen"):
            return "ref"
        if self.kind == "seq":
            return "seq"
        return "val"


_cache = {}


def parse(s):
    if isinstance(s, Ty):
        return s
    s = s.strip()
    if s in _cache:
        return _cache[s]
    t = _parse(s)
    _cache[s] = t
    return t


def _split_top(s, sep):
    """split on sep outside parentheses"""
    out, depth, cur, i = [], 0, "", 0
    while i < len(s):
        ch = s[i]
        if ch == "(":
            depth += 1
        elif ch == ")":
            depth -= 1
        if depth == 0 and s.startswith(sep, i):
            out.append(cur.strip())
            cur = ""
            i += len(sep)
            continue
        cur += ch
        i += 1
    out.append(cur.strip())
    return out


def _strip_parens(s):
    s = s.strip()
    while s.startswith("(") and s.endswith(")"):
        depth = 0
        ok = True
        for k, ch in enumerate(s):
            if ch == "(":
                depth += 1
            elif ch == ")":
                depth -= 1
                if depth == 0 and k != len(s) - 1:
                    ok = False
                    break
        if not ok:
            break
        s = s[1:-1].strip()
    return s


def _parse(s):
    s = _strip_parens(s)
    parts = _split_top(s, "||")
    if len(parts) > 1:
        return Ty("union", args=[parse(p) for p in parts])
    if s.startswith("opt:"):
        return Ty("opt", args=[parse(s[4:])])
    if s.startswith("orfalse:"):
        return Ty("orfalse", args=[parse(s[8:])])
    if s.startswith("tup2:"):
        a, b = _split_top(s[5:], ",")
        return Ty("tup2", args=[parse(a), parse(b)])
    if s.startswith("obj:"):
        return Ty("obj", classes=s[4:].split("|"))
    if s.startswith("list:"):
        return Ty("list", name=s[5:])
    if s.startswith("dict:"):
        return Ty("dict", name=s[5:])
    if s.startswith("fnconst:"):
        return Ty("fnconst", name=s[8:])
    if s.startswith("gen:"):
        return Ty("gen", name=s[4:])
    if s in ("int", "bool", "str", "val", "date", "num", "intinf", "fn", "none", "seq", "real", "rec", "nat", "fnum", "time"):
        return Ty(s)
    raise ValueError("bad type string: " + s)


VAL = parse("val")
INT = parse("int")
BOOL = parse("bool")
STR = parse("str")
