"""Verdicts -> ledger comparison -> known findings -> replay -> evidence file + VIOLATION lines."""
import hashlib
import json
import os
import sys
import time

HERE = os.path.dirname(os.path.dirname(os.path.abspath(__file__)))

ASSUMPTIONS = [
    "floats are treated as mathematical reals plus +inf/-inf/nan tokens: rounding is not modelled",
    "Decimal values are exact reals; context rounding to `prec` digits is not modelled",
    "partial correctness only: termination is not proved anywhere",
    "only repo classes are used as node / arrival node / exit node / individual / server types",
    "the encoding of Python semantics by pyvc (ast -> VC) is trusted; it is cross-checked against CPython by the self-tests, not proved",
    "type invariants of the typed heap (contracts/typesdecl.py) are assumed when a field is read and proved at every write in a function under contract; writes in functions not under contract are not checked",
    "allocation returns a reference distinct from every live object",
    "z3 / cvc5 are trusted as decision procedures (an `unsat` answer is believed)",
    "CPython executes the repository code deterministically as the language reference describes",
]


def load_json(path, default):
    try:
        with open(path) as f:
            return json.load(f)
    except FileNotFoundError:
        return default


def main(argv):
    from pyvc import run
    import contracts.properties as props
    from contracts import externals
    if len(argv) >= 1 and argv[0] == "--update-ledger":
        return update_ledger(argv[1:])
    if len(argv) >= 2 and argv[0] == "--replay":
        print(open(argv[1]).read())
        return 0
    if len(argv) < 1:
        print("usage: check <property> [quick|thorough]")
        return 3
    prop = argv[0]
    tier = argv[1] if len(argv) > 1 else os.environ.get("VERIF_TIER", "quick")
    seed = int(os.environ.get("VERIF_SEED", "0"))
    t0 = time.time()
    os.chdir(HERE)
    if prop not in props.PROPS:
        print(f"property {prop} is not claimed (see MANIFEST not_applicable)")
        return 3
    cfg = props.PROPS[prop]
    units = cfg["units"]
    ledger = load_json(os.path.join(HERE, "baseline", "obligations.json"), {})
    known = load_json(os.path.join(HERE, "known_findings.json"), {"findings": []})["findings"]
    if tier == "thorough":
        os.environ["PYVC_THOROUGH"] = "1"       # read by pyvc.verify in the forked workers
        from pyvc import verify as _v
        _v.THOROUGH = True
    results = run.run_units(units, use_cvc5=True)
    viol, undecided, crashed = [], [], []
    total = discharged = 0
    by_backend = {}
    solver_time = 0.0
    samples = []
    funcs = []
    assumed_used = set()
    inlined = set()
    vacuous = []
    known_lines = []
    all_obs = []
    for r in results:
        funcs.append(r["unit"])
        assumed_used |= set(r["assumed_used"])
        inlined |= set(r["inlined"])
        if r["status"] == "unsupported":
            undecided.append((r["unit"], r["message"]))
            continue
        if r["status"] == "crash":
            crashed.append((r["unit"], r["message"]))
            continue
        if r["vacuous"]:
            vacuous.append(r["unit"])
        mine = [o for o in r["obligations"] if run.owns(o, prop, r["unit"])]
        led = ledger.get(r["unit"], {})
        if led and led.get("src_hash") == r["src_hash"]:
            want = [i for i in led.get("obligations", {}) if run.owns(dict(label=i.split("#", 1)[1].split(":", 1)[1] if "#" in i else i), prop, r["unit"])]
            if len(mine) < len(want):
                viol.append(dict(unit=r["unit"], id=r["unit"] + "#vacuity:fewer-obligations-than-ledger", verdict="not-proved",
                                 detail=f"{len(mine)} obligations generated, ledger has {len(want)} for identical source",
                                 kind="vacuity", label="obligation-count", line=None, model=""))
        for o in mine:
            total += 1
            solver_time += o["time"]
            all_obs.append(o)
            if o["verdict"] == "discharged":
                discharged += 1
                by_backend[o["backend"]] = by_backend.get(o["backend"], 0) + 1
                if o.get("cross"):
                    by_backend["cross-checked by cvc5: " + o["cross"]] = by_backend.get("cross-checked by cvc5: " + o["cross"], 0) + 1
                if len(samples) < 6:
                    samples.append(dict(id=o["id"], verdict=o["verdict"], backend=o["backend"], time_s=round(o["time"], 3)))
            else:
                o = dict(o)
                o["unit"] = r["unit"]
                o["ledger"] = led.get("obligations", {}).get(o["id"], "unknown-to-ledger")
                viol.append(o)
    # known findings: an obligation listed there is re-proved under the finding's carve-out
    real_viol = []
    kf_used = []
    for v in viol:
        kf = match_known(known, prop, v)
        if kf is not None:
            kf_used.append((kf, v))
        else:
            real_viol.append(v)
    for kf, v in kf_used:
        ok = True
        if kf.get("carve_out"):
            ok = reprove_with_carve_out(kf, v)
        if ok:
            line = f"KNOWN-FINDING: property={prop} {kf['id']} {kf['what']}"
            if line not in known_lines:
                known_lines.append(line)
            total_adj = True
        else:
            real_viol.append(v)
    wall = time.time() - t0
    status = 0
    out_lines = []
    rep_dir = os.path.join(HERE, "out", "replays", prop)
    if real_viol:
        os.makedirs(rep_dir, exist_ok=True)
        from pyvc import replay
        for v in real_viol:
            h = hashlib.sha256(v["id"].encode()).hexdigest()[:12]
            path = os.path.join("out", "replays", prop, h + ".json")
            rp = replay.attempt(prop, v)
            body = dict(property=prop, obligation=v["id"], unit=v["unit"], verdict=v["verdict"], kind=v.get("kind"),
                        label=v.get("label"), line=v.get("line"), solver_output=v.get("detail"),
                        candidate_model=v.get("model", ""), ledger_verdict=v.get("ledger"), call_stack=v.get("stack"),
                        native_replay=rp, tree=os.environ.get("PYVC_REPO", "/repo"))
            with open(os.path.join(HERE, path), "w") as f:
                json.dump(body, f, indent=1, default=str)
            tail = "" if rp.get("confirmed") else " no-failing-input-found"
            out_lines.append(f"VIOLATION property={prop} replay={path}{tail}")
        status = 1
    if vacuous:
        for u in vacuous:
            out_lines.append(f"VIOLATION property={prop} replay=none vacuous-precondition-in-{u} no-failing-input-found")
        status = 1
    if crashed:
        status = 3
    elif undecided and status == 0:
        status = 2
    if total == 0 and status == 0:
        print("no obligations generated: refusing to report success")
        status = 3
    trusted = sorted(set(externals.TRUSTED) | {"assumed contract: " + a for a in assumed_used})
    ev = dict(
        property_id=prop, tier=tier, seed=seed, level="proof",
        coverage=dict(
            obligations=total, discharged=discharged + len(kf_used) if status == 0 else discharged,
            checker_cmd=f"./check {prop} {tier}",
            trusted_base=trusted,
            functions_under_contract=funcs, inlined_leaf_functions=sorted(inlined),
            by_backend=by_backend, solver_time_s=round(solver_time, 2),
            undecided=[u for u, _ in undecided], crashed=[u for u, _ in crashed],
            known_findings=known_lines, not_discharged=[v["id"] for v in real_viol],
            vacuity=dict(obligation_count_nonzero=total > 0, contradictory_preconditions=vacuous),
            samples=samples or [dict(id=o["id"], verdict=o["verdict"]) for o in all_obs[:3]],
            explanation=cfg.get("explanation", ""),
            bounded_standins=cfg.get("bounded", []),
        ),
        assumptions=ASSUMPTIONS + cfg.get("assumptions", []),
        wall_s=round(wall, 2), violations=len(real_viol))
    os.makedirs(os.path.join(HERE, "evidence"), exist_ok=True)
    with open(os.path.join(HERE, "evidence", prop + ".json"), "w") as f:
        json.dump(ev, f, indent=1)
    for l in known_lines:
        print(l)
    for u, m in undecided:
        print(f"UNDECIDED unit={u}: {m}")
    for u, m in crashed:
        print(f"CRASH unit={u}:\n{m}")
    for l in out_lines:
        print(l)
    print(f"{prop} {tier}: {discharged}/{total} obligations discharged over {len(funcs)} units, "
          f"{len(real_viol)} violations, {len(known_lines)} known findings, {wall:.1f}s")
    if os.environ.get("PYVC_VERBOSE"):
        for v in real_viol:
            print("  FAILED", v["id"], v["verdict"], (v.get("detail") or "")[:120])
    return status


def match_known(known, prop, v):
    for kf in known:
        if kf.get("status") != "known":
            continue
        if prop not in kf.get("properties", [kf.get("property")]):
            continue
        import re
        vid = re.sub(r"@L\d+", "", v["id"])
        for pat in kf.get("obligations", []):
            pat = re.sub(r"@L\d+", "", pat)       # line numbers move with unrelated edits; the rest of an id is stable
            if vid == pat or (pat.endswith("*") and vid.startswith(pat[:-1])):
                return kf
    return None


def reprove_with_carve_out(kf, v):
    """re-run the unit with the negated carve-out as an extra precondition; the listed obligation must
    then be discharged (so any *other* violation of the same clause is still reported)"""
    from pyvc import verify
    from pyvc.frontend import Program
    import contracts
    P = Program()
    S = contracts.build_spec()
    unit = v["unit"]
    rc, q = (unit.split("::") + [None])[:2] if "::" in unit else (None, unit)
    fi = P.get(q) if rc is None else P.lookup(rc, q.split(".", 1)[1])
    c = verify.contract_for(S, fi, rc)
    targets = [c] + list(c.cases)
    for t in targets:
        t.requires = list(t.requires) + [("known-finding-carve-out", "not (" + kf["carve_out"] + ")")]
    r = verify.verify_unit(P, S, q, rc, use_cvc5=True)
    for o in r.obligations:
        if o["id"] == v["id"]:
            return o["verdict"] == "discharged"
    return False


_P = None


def inlined_hashes(names):
    """source hashes of the helper functions a unit inlines (a change there changes the unit's obligations)"""
    from pyvc.frontend import Program
    global _P
    if _P is None:
        _P = Program()
    out = {}
    for n in names:
        fi = _P.get(n)
        if fi is not None:
            out[n] = fi.src_hash
    return out


def update_ledger(argv):
    from pyvc import run
    import contracts.properties as props
    units = []
    for p, cfg in props.PROPS.items():
        for u in cfg["units"]:
            if u not in units:
                units.append(u)
    results = run.run_units(units, use_cvc5=True)
    led = {}
    for r in results:
        led[r["unit"]] = dict(src_hash=r["src_hash"], status=r["status"], inlined=inlined_hashes(r.get("inlined", [])),
                              obligations={o["id"]: o["verdict"] for o in r["obligations"]})
    os.makedirs(os.path.join(HERE, "baseline"), exist_ok=True)
    with open(os.path.join(HERE, "baseline", "obligations.json"), "w") as f:
        json.dump(led, f, indent=1, sort_keys=True)
    n = sum(len(v["obligations"]) for v in led.values())
    bad = [(u, i, v) for u, d in led.items() for i, v in d["obligations"].items() if v != "discharged"]
    print(f"ledger: {len(led)} units, {n} obligations, {len(bad)} not discharged")
    for b in bad:
        print("  ", b)
    return 0
