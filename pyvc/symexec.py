"""Symbolic executor of pyvc: runs the real function bodies (ast of /repo) over a typed symbolic heap
and emits verification conditions.  See DESIGN.md section 2.
"""
import ast
import itertools
import z3
from . import smt, types
from .smt import Val, Seq, Len, At, Append1, RemoveAt, IndexOf, Contains, Take, Drop, Concat, Update, Empty
from .types import Ty, parse as T


class Unsupported(Exception):
    def __init__(self, msg, node=None):
        self.msg = msg
        self.line = getattr(node, "lineno", None)
        super().__init__(f"{msg} at line {self.line}")


class SV:
    """symbolic value: k in int|bool|str|ref|val|seq ; t the z3 term ; h a Ty hint (or None)"""
    __slots__ = ("k", "t", "h", "fresh", "exactcls", "family")

    def __init__(self, k, t, h=None, fresh=False):
        self.k, self.t, self.h, self.fresh = k, t, h, fresh
        self.exactcls = None
        self.family = None

    def __repr__(self):
        return f"SV({self.k},{self.t},{self.h})"


class Exc:
    def __init__(self, name, node=None):
        self.name = name
        self.line = getattr(node, "lineno", None)


class FnVal:
    """a Python-level callable known statically (lambda or named repo function) carried in an SV hint"""
    def __init__(self, kind, payload, closure=None):
        self.kind, self.payload, self.closure = kind, payload, closure


class State:
    def __init__(self):
        self.env = {}
        self.heap = {}
        self.pc = []
        self.known = {}      # z3 ast id -> bool (conditions already branched on)
        self.guards = []     # extra guards for obligations emitted while evaluating short-circuit operands
        self.epoch = 0       # bumped by a '*' havoc: lazily created heap arrays are named per epoch

    def copy(self):
        s = State()
        s.env = dict(self.env)
        s.heap = dict(self.heap)
        s.pc = list(self.pc)
        s.known = dict(self.known)
        if "$names" in s.known:
            s.known["$names"] = dict(s.known["$names"])
        s.known.pop("$pcids", None)
        s.guards = list(self.guards)
        s.epoch = self.epoch
        return s

    def assume(self, f):
        self.add_fact(f)

    def add_fact(self, f):
        """append to the path condition unless the very same formula is already there"""
        if z3.is_true(f):
            return
        ids = self.known.get("$pcids")
        if ids is None or ids[0] is not self.pc:
            ids = (self.pc, {a.get_id() for a in self.pc})
            self.known["$pcids"] = ids
        i = f.get_id()
        if i in ids[1]:
            return
        ids[1].add(i)
        self.pc.append(f)

    def add_facts(self, fs):
        for f in fs:
            self.add_fact(f)


class Obligation:
    def __init__(self, oid, kind, label, line, assumptions, goal, meta=None):
        self.id, self.kind, self.label, self.line = oid, kind, label, line
        self.assumptions, self.goal, self.meta = assumptions, goal, meta or {}


CLS_BUILTIN = ["LIST", "DICT", "GEN", "DIGRAPH", "OTHER"]

_uid = itertools.count()


def fresh(name, sort):
    return z3.Const(f"{name}!{next(_uid)}", sort)


I, B, R = smt.I, smt.B, smt.R
cls_of = z3.Function("cls", I, I)
role_of = z3.Function("role", I, I)
owner_of = z3.Function("owner", I, I)
slot_of = z3.Function("slot", I, I)
ftag_of = z3.Function("heldby", I, I)        # which attribute holds a container (ownership: at most one field holds it)
NNODES = z3.Int("NumberOfServiceNodes")      # network.number_of_nodes (ghost constant of the configuration)
StrOf = z3.Function("StrOf", Val, I)          # str(x) as an atom id
Intended = z3.Function("Intended", R, R)      # Decimal(str(float x))  -- shortest-repr decimal of x
BinExp = z3.Function("BinExp", R, R)          # Decimal(float x)       -- exact binary expansion of x


class Spec:
    """Holds everything from the sidecar: field types, list kinds, contracts, externals, ghost fields."""
    def __init__(self):
        self.fields = {}        # (cls, name) -> Ty
        self.kinds = {}         # list/dict kind -> element Ty (for dict: (keyTy, valTy))
        self.contracts = {}     # qualname -> Contract
        self.ghost = {}         # ghost field name -> sort ('int'|'bool'|'val'|'ref')
        self.strings = {}       # string literal -> atom id
        self.externals = {}     # name -> python callable model
        self.lazy_ok = set()    # (cls, name) fields whose presence is guaranteed by an invariant we assume (listed)
        self.fn_ids = {}        # known function name -> id
        self.macros = {}        # spec macro name -> lambda source text
        self.gen_kinds = {}     # generator kind (as in `gen:<kind>` field types) -> qualname of the generator function under a `yields` contract
        self.total_dicts = set()   # dict kinds assumed total over the keys they are indexed with (I-CFG)
        self.per_node_lists = set()  # list kinds assumed to have exactly one entry per service node (I-CFG)

    def atom(self, s):
        if s not in self.strings:
            self.strings[s] = len(self.strings) + 1
        return self.strings[s]

    def fn_id(self, name):
        if name not in self.fn_ids:
            self.fn_ids[name] = len(self.fn_ids) + 1
        return self.fn_ids[name]


class Contract:
    def __init__(self, target, requires=(), ensures=(), modifies=(), types=None, returns=None, inline=False,
                 loop_invariants=None, raises=(), allocates=False, assumed=False, hints=(), ghost_updates=(),
                 props=(), decreases=None, pure=False, note="", cases=None, call_assumes=None, at_call=None,
                 expect_calls=None, lemma_after=None, refines=None, yields=None, gen_kind=None, loop_assumes_inv=False):
        self.target = target
        self.loop_assumes_inv = loop_assumes_inv   # INV(...) requires are also assumed at the unit's loop heads (listed as assumptions)
        self.yields = yields            # generator functions: text of a lambda k: <the k-th yielded value> (k from 0), proved at every `yield`
        self.gen_kind = gen_kind        # ... and the `gen:<kind>` name under which fields holding such generators are declared
        self.refines = refines          # name of the class-level contract this one refines: callers whose static receiver type is wider
                                        # than this class use that contract, this one is for verifying the override itself
        self.requires = [self._lab(x, "pre", k) for k, x in enumerate(requires)]
        self.ensures = [self._lab(x, "post", k) for k, x in enumerate(ensures)]
        self.modifies = list(modifies)
        self.types = types or {}
        self.returns = returns
        self.inline = inline
        self.loop_invariants = loop_invariants or {}
        self.raises = list(raises)      # list of (exc name, condition string) : may raise exc when condition
        self.allocates = allocates
        self.assumed = assumed          # contract is trusted, body not verified
        self.hints = list(hints)
        self.ghost_updates = list(ghost_updates)   # ghost statements run at every normal exit: (ghost name, object expr, value expr)
        self.props = list(props)
        self.pure = pure
        self.note = note
        self.call_assumes = call_assumes or {}    # callee -> clauses ASSUMED (not proved) just before that call; listed as assumptions
        self.at_call = at_call or {}              # callee -> clauses PROVED just before that call (old = function entry)
        self.expect_calls = expect_calls or {}    # callee method name -> exact number of calls on every normally returning path
        self.lemma_after = lemma_after or {}      # callee -> clauses ASSUMED right after that call returns (`result` bound); listed as assumptions
        self.when = None
        self.case_name = None
        self.cases = []
        for cs in (cases or []):
            self.cases.append(self.make_case(cs))

    def make_case(self, cs):
        """a behaviour of the function: guard `when` plus its own requires / ensures / modifies, on top
        of the shared ones"""
        c = Contract(self.target, requires=[], ensures=[], modifies=list(self.modifies) + list(cs.get("modifies", [])),
                     types=self.types, returns=self.returns, loop_invariants=self.loop_invariants,
                     raises=self.raises + list(cs.get("raises", [])), allocates=self.allocates or cs.get("allocates", False),
                     assumed=self.assumed, props=self.props, call_assumes=self.call_assumes, lemma_after=self.lemma_after,
                     at_call={**self.at_call, **cs.get("at_call", {})}, expect_calls={**self.expect_calls, **cs.get("expect_calls", {})},
                     ghost_updates=self.ghost_updates)
        c.requires = list(self.requires) + [self._lab(x, "pre-" + cs["name"], k) for k, x in enumerate(cs.get("requires", []))]
        c.ensures = list(self.ensures) + [self._lab(x, "post-" + cs["name"], k) for k, x in enumerate(cs.get("ensures", []))]
        c.when = cs["when"]
        c.case_name = cs["name"]
        return c

    @staticmethod
    def _lab(x, pfx, k):
        if isinstance(x, tuple):
            return x
        return (f"{pfx}{k}", x)


# ================================================================================================
class Executor:
    def __init__(self, program, spec, unit_fi, recv_cls=None, mode="verify"):
        self.P = program
        self.S = spec
        self.fi = unit_fi
        self.recv_cls = recv_cls
        self.obligations = []
        self.ob_counter = {}
        self.class_ids = {}
        for k, c in enumerate(CLS_BUILTIN + sorted(program.classes)):
            self.class_ids[c] = k + 1
        self.role_ids = {}
        self.depth = 0
        self.call_stack = []
        self.suppress = 0        # >0 : trial execution, no obligations
        self.writes = None       # set collecting written heaps during trial execution
        self.write_log = []      # (heap, ref term | None, hint, fresh object?, contract preds) during trial execution
        self.noprune = 0
        self.heap_sorts = {}
        self.warnings = []
        self.unit_name = (recv_cls + "::" if recv_cls else "") + unit_fi.qualname
        self.assumed_used = set()
        self.inlined = set()
        self.spec_mode = 0
        self.old_stack = []
        self.result_stack = []
        self.quant_facts = None
        self.cur_owner = [unit_fi.cls]
        self.loop_index = {}
        self.entry_old = None
        self.entry_alive = None
        self.contract_stack = []
        self.loop_alive = []
        self.last_frame_summary = {}
        self.role_alt = {}       # id of a pointwise modifies predicate on a typed container -> the coarser role predicate
        self.comp_info = {}
        self.literal_seqs = {}

    # ---------------------------------------------------------------- ids
    def cid(self, name):
        if name not in self.class_ids:
            self.class_ids[name] = len(self.class_ids) + 1
        return self.class_ids[name]

    def rid(self, name):
        if name not in self.role_ids:
            self.role_ids[name] = len(self.role_ids) + 1
        return self.role_ids[name]

    def concrete_subclasses(self, names):
        out = []
        for n in names:
            if n in self.P.classes:
                for c in self.P.subclasses(n):
                    if c not in out:
                        out.append(c)
            elif n not in out:
                out.append(n)
        return out

    def is_instance(self, ref_t, names):
        subs = self.concrete_subclasses(names)
        return z3.Or([cls_of(ref_t) == self.cid(c) for c in subs]) if subs else z3.BoolVal(False)

    # ---------------------------------------------------------------- heap plumbing
    def field_sort_kind(self, name):
        if name in self.heap_sorts:
            return self.heap_sorts[name]
        sorts = set()
        for (c, n), ty in self.S.fields.items():
            if n == name:
                sorts.add(ty.sort())
        if name in self.S.ghost:
            sorts.add(self.S.ghost[name])
        if len(sorts) == 1:
            k = sorts.pop()
        else:
            k = "val"
        self.heap_sorts[name] = k
        return k

    def z3sort(self, k):
        return {"int": I, "bool": B, "str": I, "ref": I, "val": Val, "seq": Seq}[k]

    def heap_get(self, st, name):
        if name not in st.heap:
            pfx = f"H{st.epoch}"
            if name == "$seq":
                st.heap[name] = z3.Const(pfx + "$seq", z3.ArraySort(I, Seq))
            elif name == "$alive":
                st.heap[name] = z3.Const(pfx + "$alive", z3.ArraySort(I, B))
            elif name == "$dv":
                st.heap[name] = z3.Const(pfx + "$dv", z3.ArraySort(I, z3.ArraySort(Val, Val)))
            elif name == "$dh":
                st.heap[name] = z3.Const(pfx + "$dh", z3.ArraySort(I, z3.ArraySort(Val, B)))
            elif name == "$dk":
                st.heap[name] = z3.Const(pfx + "$dk", z3.ArraySort(I, Seq))
            elif name.startswith("has$"):
                st.heap[name] = z3.Const(pfx + name, z3.ArraySort(I, B))
            else:
                st.heap[name] = z3.Const(pfx + "_" + name, z3.ArraySort(I, self.z3sort(self.field_sort_kind(name))))
        return st.heap[name]

    def heap_set(self, st, name, arr, hint=None, fresh_obj=False, preds=None):
        cur = self.heap_get(st, name)
        st.heap[name] = arr
        if not fresh_obj and name != "$alive":
            st.known["$mut"] = st.known.get("$mut", 0) + 1      # a write to a pre-existing object
        if self.writes is not None:
            self.writes.add(name)
            at = None
            if z3.is_store(arr) and arr.arg(0).eq(cur):
                at = arr.arg(1)
            self.write_log.append((name, at, hint, fresh_obj, preds,
                                   list(st.pc) if ((at is not None and not fresh_obj) or (preds is not None and not (isinstance(preds, tuple) and preds and preds[0] == "classes"))) else None))

    def named_heap(self, st, name):
        """the current array of heap `name` as a constant (for use in quantifier patterns: z3 rewrites
        select-over-store terms, so a pattern containing a Store never matches)"""
        arr = self.heap_get(st, name)
        if z3.is_const(arr):
            return arr
        names = st.known.setdefault("$names", {})
        key = ("heap", arr.get_id())
        if key not in names:
            c = fresh("Hn_" + name.replace("$", "S"), arr.sort())
            st.add_fact(c == arr)
            names[key] = c
        return names[key]

    def fresh_heap(self, st, name, preds=None):
        old = self.heap_get(st, name)
        new = fresh("H_" + name.replace("$", "S"), old.sort())
        self.heap_set(st, name, new, preds=preds)
        return old, new

    # ---------------------------------------------------------------- typing
    def field_ty(self, classes, name):
        """declared type of attribute `name` for an object whose static classes are `classes`."""
        found = []
        for c in classes or []:
            for m in (self.P.mro(c) if c in self.P.classes else [c]):
                if (m, name) in self.S.fields:
                    found.append(self.S.fields[(m, name)])
                    break
            else:
                # a subclass may declare it (e.g. PSNode.ps_capacity read through a Node-typed ref)
                for sc in (self.P.subclasses(c) if c in self.P.classes else []):
                    if (sc, name) in self.S.fields:
                        found.append(self.S.fields[(sc, name)])
                        break
        if not found:
            cands = [ty for (c, n), ty in self.S.fields.items() if n == name]
            reprs = {repr(t) for t in cands}
            if len(reprs) == 1:
                return cands[0]
            if cands and not classes:
                return T("val")
            return None
        reprs = {repr(t) for t in found}
        if len(reprs) == 1:
            return found[0]
        return Ty("union", args=found)

    def type_pred(self, ty, term, st, sortk=None):
        """z3 Bool: `term` (of the sort of ty, or Val when sortk == 'val') is a valid value of ty."""
        k = ty.kind
        sortk = sortk or ty.sort()
        if sortk == "val" and ty.sort() != "val":
            # term is a Val holding a value of a primitive-sorted type
            if k == "int":
                return Val.is_intv(term)
            if k == "bool":
                return Val.is_boolv(term)
            if k == "str":
                return Val.is_strv(term)
            return z3.And(Val.is_ref(term), self.type_pred(ty, Val.o(term), st, "ref"))
        if k in ("int", "bool", "str", "val", "seq"):
            return z3.BoolVal(True)
        if k == "nat":
            return z3.And(Val.is_intv(term), Val.i(term) >= 0)
        if k == "obj":
            alive = self.heap_get(st, "$alive")
            return z3.And(alive[term], self.is_instance(term, ty.classes))
        if k == "list":
            alive = self.heap_get(st, "$alive")
            if ty.name == "Any":
                return z3.And(alive[term], cls_of(term) == self.cid("LIST"))
            return z3.And(alive[term], cls_of(term) == self.cid("LIST"), role_of(term) == self.rid(ty.name))
        if k == "dict":
            alive = self.heap_get(st, "$alive")
            return z3.And(alive[term], cls_of(term) == self.cid("DICT"), role_of(term) == self.rid(ty.name))
        if k == "gen":
            alive = self.heap_get(st, "$alive")
            return z3.And(alive[term], cls_of(term) == self.cid("GEN"))
        if k == "date":      # False ("no date") or a date / duration (never True)
            return z3.Or(term == Val.boolv(False), Val.is_intv(term), Val.is_realv(term), Val.is_pinf(term),
                         Val.is_decv(term), Val.is_dpinf(term))
        if k == "num":
            return smt.is_number(term)
        if k == "real":
            return z3.Or(Val.is_realv(term), Val.is_intv(term))
        if k == "time":      # a date or duration: any number except a bool (False is "no date", never a date)
            return z3.Or(Val.is_intv(term), Val.is_realv(term), Val.is_pinf(term), Val.is_decv(term), Val.is_dpinf(term))
        if k == "fnum":      # a float-world number: finite (bool / int / float) or +inf
            return z3.Or(smt.isfin(term), Val.is_pinf(term))
        if k == "intinf":
            return z3.Or(Val.is_intv(term), Val.is_pinf(term))
        if k == "fn":
            return Val.is_fnv(term)
        if k == "fnconst":
            return term == Val.fnv(self.S.fn_id(ty.name))
        if k == "none":
            return Val.is_none(term)
        if k == "rec":
            return Val.is_recv(term)
        if k == "opt":
            return z3.Or(Val.is_none(term), self.type_pred(ty.args[0], term, st, "val"))
        if k == "orfalse":
            return z3.Or(term == Val.boolv(False), self.type_pred(ty.args[0], term, st, "val"))
        if k == "tup2":
            return z3.And(Val.is_tup2(term), self.type_pred(ty.args[0], Val.t0(term), st, "val"),
                          self.type_pred(ty.args[1], Val.t1(term), st, "val"))
        if k == "union":
            return z3.Or([self.type_pred(a, term, st, "val") for a in ty.args])
        raise Unsupported("type_pred " + repr(ty))

    def to_val(self, sv):
        if sv.k == "val":
            return sv.t
        if sv.k == "int":
            return Val.intv(sv.t)
        if sv.k == "bool":
            return Val.boolv(sv.t)
        if sv.k == "str":
            return Val.strv(sv.t)
        if sv.k == "ref":
            return Val.ref(sv.t)
        if sv.k == "seq":
            return Val.tupv(sv.t)
        raise Unsupported("to_val " + sv.k)

    def from_val(self, term, ty):
        """view a Val term as an SV of type ty (no check)"""
        s = ty.sort()
        if s == "int":
            return SV("int", Val.i(term), ty)
        if s == "bool":
            return SV("bool", Val.b(term), ty)
        if s == "str":
            return SV("str", Val.s(term), ty)
        if s == "ref":
            return SV("ref", Val.o(term), ty)
        return SV("val", term, ty)

    def coerce(self, sv, ty, st, node, what):
        """coerce sv to the sort of ty, emitting a type obligation. returns z3 term of that sort."""
        s = ty.sort()
        if s == sv.k:
            if s == "ref":
                # statically typed refs: check class compatibility only when hints disagree
                if sv.h is not None and sv.h.kind == ty.kind and (
                        (ty.kind == "obj" and set(self.concrete_subclasses(sv.h.classes)) <= set(self.concrete_subclasses(ty.classes)))
                        or (ty.kind in ("list", "dict") and sv.h.name == ty.name)):
                    return sv.t
                if ty.kind in ("list", "dict") and sv.fresh:
                    return sv.t     # blessed by the caller (store_field)
                self.oblige(st, "type", what, node, self.type_pred(ty, sv.t, st))
                return sv.t
            if s == "val":
                if ty.kind != "val":
                    self.oblige(st, "type", what, node, self.type_pred(ty, sv.t, st))
                return sv.t
            return sv.t
        if s == "val":
            v = self.to_val(sv)
            if ty.kind != "val":
                self.oblige(st, "type", what, node, self.type_pred(ty, v, st))
            return v
        if sv.k == "val":
            self.oblige(st, "type", what, node, self.type_pred(ty, sv.t, st, "val"))
            return self.from_val(sv.t, ty).t
        if s == "int" and sv.k == "bool":
            return z3.If(sv.t, z3.IntVal(1), z3.IntVal(0))
        self.oblige(st, "type", what, node, z3.BoolVal(False))
        return fresh("illtyped", self.z3sort(s))

    def assume_type(self, st, sv):
        if sv.h is None:
            return
        p = self.type_pred(sv.h, sv.t, st, sv.k if sv.k in ("val",) else None) if not (sv.k != "val" and sv.h.sort() == "val") else None
        if p is not None:
            self.assume(st, z3.simplify(p))

    def assume(self, st, f):
        if self.quant_facts is not None:
            # inside a quantifier body: the fact holds under the guards active where it arose
            if st.guards:
                f = z3.Implies(z3.And(list(st.guards)), f)
            self.quant_facts.append(f)
        else:
            st.assume(f)

    # ---------------------------------------------------------------- obligations
    def oblige(self, st, kind, label, node, goal, meta=None):
        if self.suppress:
            return
        if self.spec_mode:
            return
        goal = z3.simplify(goal) if not z3.is_quantifier(goal) else goal
        if z3.is_true(goal):
            return
        line = getattr(node, "lineno", None) if node is not None else None
        base = f"{self.unit_name}#{kind}:{label}"
        key = base + (f"@L{line}" if line else "")
        n = self.ob_counter.get(key, 0)
        self.ob_counter[key] = n + 1
        oid = key + (f"~{n}" if n else "")
        if self.defs_collector is not None and kind in ("def", "type"):
            self.defs_collector.append((oid, kind, label, line, list(st.guards), goal))
            return
        assumptions = list(st.pc) + list(st.guards)
        m = {"stack": list(self.call_stack)}
        if meta:
            m.update(meta)
        self.obligations.append(Obligation(oid, kind, label, line, assumptions, goal, m))

    defs_collector = None

    # ---------------------------------------------------------------- branching
    def branch(self, st, cond):
        """returns list of (state, bool) for feasible outcomes of a z3 Bool condition"""
        c = z3.simplify(cond)
        if z3.is_true(c):
            return [(st, True)]
        if z3.is_false(c):
            return [(st, False)]
        key = c.get_id()
        if key in st.known and not self.noprune:
            return [(st, st.known[key])]
        out = []
        for val in (True, False):
            s2 = st.copy()
            f = c if val else z3.Not(c)
            if not self.noprune and not self.feasible(s2, f):
                continue
            s2.assume(f)
            s2.known[key] = val
            out.append((s2, val))
        if not out:       # both pruned: the path itself is infeasible; keep one to stay sound (vacuous)
            s2 = st.copy()
            s2.assume(z3.BoolVal(False))
            out.append((s2, True))
        return out

    def feasible(self, st, f):
        s = z3.Solver()
        s.set("timeout", 300)
        for a in st.pc:
            if not z3.is_quantifier(a):
                s.add(a)
        s.add(f)
        return s.check() != z3.unsat

    # ---------------------------------------------------------------- truthiness / conversions
    def truthy(self, sv, st):
        if sv.k == "bool":
            return sv.t
        if sv.k == "int":
            return sv.t != 0
        if sv.k == "str":
            return sv.t != self.S.atom("")
        if sv.k == "seq":
            return Len(sv.t) > 0
        if sv.k == "ref":
            if sv.h is not None and sv.h.kind == "list":
                return Len(self.heap_get(st, "$seq")[sv.t]) > 0
            if sv.h is not None and sv.h.kind == "dict":
                return Len(self.heap_get(st, "$dk")[sv.t]) > 0
            return z3.BoolVal(True)
        v = sv.t
        seq = self.heap_get(st, "$seq")
        dk = self.heap_get(st, "$dk")
        refcase = z3.If(cls_of(Val.o(v)) == self.cid("LIST"), Len(seq[Val.o(v)]) > 0,
                        z3.If(cls_of(Val.o(v)) == self.cid("DICT"), Len(dk[Val.o(v)]) > 0, z3.BoolVal(True)))
        return z3.simplify(z3.If(Val.is_none(v), z3.BoolVal(False),
                     z3.If(Val.is_boolv(v), Val.b(v),
                     z3.If(Val.is_intv(v), Val.i(v) != 0,
                     z3.If(Val.is_realv(v), Val.r(v) != 0,
                     z3.If(Val.is_decv(v), Val.d(v) != 0,
                     z3.If(Val.is_strv(v), Val.s(v) != self.S.atom(""),
                     z3.If(Val.is_ref(v), refcase,
                     z3.If(Val.is_tupv(v), Len(Val.ts(v)) > 0, z3.BoolVal(True))))))))))

    def as_ref(self, sv, st, node, what="receiver"):
        if sv.k == "ref":
            return sv
        if sv.k == "val":
            self.oblige(st, "def", f"{what}-is-object", node, Val.is_ref(sv.t))
            h = sv.h
            while h is not None and h.kind in ("opt", "orfalse"):
                h = h.args[0]
            if h is not None and h.kind == "union":
                objs = [a for a in h.args if a.sort() == "ref"]
                if len(objs) == 1:
                    h = objs[0]
                elif objs and all(a.kind == "obj" for a in objs):
                    h = Ty("obj", classes=[c for a in objs for c in a.classes])
                else:
                    h = None
            if h is not None and h.sort() != "ref":
                h = None
            r = SV("ref", Val.o(sv.t), h)
            return r
        raise Unsupported(f"attribute access on {sv.k}", node)

    def as_int(self, sv, st, node, what="int"):
        if sv.k == "int":
            return sv.t
        if sv.k == "bool":
            return z3.If(sv.t, z3.IntVal(1), z3.IntVal(0))
        if sv.k == "val":
            self.oblige(st, "def", f"{what}-is-int", node, smt.isint(sv.t))
            return smt.inti(sv.t)
        raise Unsupported("as_int on " + sv.k, node)

    def named_seq(self, st, ref_t, hint=None):
        """Seq held by list object ref_t in the current heap, as a named constant (per path)"""
        heap = self.heap_get(st, "$seq")
        if self.quant_facts is not None and self.mentions_bound(ref_t):
            self.witness_heap_fact(st)
            if hint is not None and hint.kind == "list" and hint.name not in ("Any", "Local"):
                self.typed_heap_fact(st, hint.name)
            if hint is not None and hint.kind == "list" and hint.name in self.S.per_node_lists:
                self.assumed_used.add("I-CFG: per-node configuration lists (" + ", ".join(sorted(self.S.per_node_lists)) +
                                      ") have exactly one entry per service node")
                self.assume(st, Len(self.named_heap(st, "$seq")[ref_t]) == NNODES)
            return self.named_heap(st, "$seq")[ref_t]
        key = (heap.get_id(), ref_t.get_id())
        names = st.known.setdefault("$names", {})
        if key not in names:
            c = fresh("sq", Seq)
            st.add_fact(c == heap[ref_t])
            names[key] = c
            # every member sits at its first position (witness, scoped to this sequence)
            x = z3.Const(f"x!{next(_uid)}", Val)
            st.add_fact(smt.forall([x], z3.Implies(Contains(c, x), At(c, IndexOf(c, x)) == x), [Contains(c, x)]))
        c = names[key]
        if hint is not None and hint.kind == "list" and hint.name in self.S.per_node_lists and ("pn", c.get_id()) not in names:
            names[("pn", c.get_id())] = True
            self.assumed_used.add("I-CFG: per-node configuration lists (" + ", ".join(sorted(self.S.per_node_lists)) +
                                  ") have exactly one entry per service node")
            st.add_fact(Len(c) == NNODES)
        # element typing of a list of a declared kind, available from membership as well as from position
        ety = None
        if hint is not None and hint.kind == "list":
            e = self.S.kinds.get(hint.name)
            ety = e if isinstance(e, Ty) else (hint.args[0] if (hint.name == "Local" and hint.args) else None)
        tkey = ("typed", c.get_id())
        if ety is not None and ety.kind != "val" and tkey not in names:
            names[tkey] = True
            x = z3.Const(f"x!{next(_uid)}", Val)
            k = z3.Int(f"k!{next(_uid)}")
            try:
                tp = lambda t: z3.simplify(self.type_pred(ety, t, st, "val"))
                st.add_fact(smt.forall([x], z3.Implies(Contains(c, x), tp(x)), [Contains(c, x)]))
                st.add_fact(smt.forall([k], z3.Implies(z3.And(0 <= k, k < Len(c)), tp(At(c, k))), [At(c, k)]))
            except Unsupported:
                pass
        return c

    bound_vars = ()

    def unit_env_view(self, st):
        """locals of the unit function visible in checkpoint clauses"""
        return dict(st.env)

    def mentions_bound(self, t):
        if not self.bound_vars:
            return False
        ids = {b.get_id() for b in self.bound_vars}
        seen = set()
        stack = [t]
        while stack:
            x = stack.pop()
            if x.get_id() in seen:
                continue
            seen.add(x.get_id())
            if x.get_id() in ids:
                return True
            stack.extend(x.children())
        return False

    def witness_heap_fact(self, st):
        """every member of any list of the current heap sits at its first position (needed when a
        contract quantifies over list objects, so that the sequence cannot be named)"""
        H = self.named_heap(st, "$seq")
        names = st.known.setdefault("$names", {})
        key = ("witnessheap", H.get_id())
        if key in names:
            return
        names[key] = True
        l = z3.Int(f"l!{next(_uid)}")
        x = z3.Const(f"x!{next(_uid)}", Val)
        st.add_fact(smt.forall([l, x], z3.Implies(Contains(H[l], x), At(H[l], IndexOf(H[l], x)) == x), [Contains(H[l], x)]))

    def typed_heap_fact(self, st, kind):
        """element typing of EVERY list of a declared kind in the current heap (needed when a contract
        quantifies over lists, e.g. over the priority lines of a node)"""
        e = self.S.kinds.get(kind)
        if not isinstance(e, Ty) or e.kind == "val":
            return
        H = self.named_heap(st, "$seq")
        names = st.known.setdefault("$names", {})
        key = ("typedheap", H.get_id(), kind)
        if key in names:
            return
        names[key] = True
        l = z3.Int(f"l!{next(_uid)}")
        x = z3.Const(f"x!{next(_uid)}", Val)
        k = z3.Int(f"k!{next(_uid)}")
        try:
            tx = z3.simplify(self.type_pred(e, x, st, "val"))
            st.add_fact(smt.forall([l, x], z3.Implies(z3.And(role_of(l) == self.rid(kind), Contains(H[l], x)), tx),
                                    [Contains(H[l], x)]))
            tk = z3.simplify(self.type_pred(e, At(H[l], k), st, "val"))
            st.add_fact(smt.forall([l, k], z3.Implies(z3.And(role_of(l) == self.rid(kind), 0 <= k, k < Len(H[l])), tk),
                                    [At(H[l], k)]))
        except Unsupported:
            pass

    def seq_of(self, sv, st, node=None):
        """abstract Seq of a list-like SV"""
        if sv.k == "seq":
            return sv.t
        if sv.k == "ref":
            return self.named_seq(st, sv.t, sv.h)
        if sv.k == "val":
            if sv.h is not None and sv.h.kind == "tupv":
                return Val.ts(sv.t)
            r = self.as_ref(sv, st, node, "list")
            return self.named_seq(st, r.t, r.h)
        raise Unsupported("seq_of " + sv.k, node)

    def elem_ty(self, sv):
        h = sv.h
        if h is None:
            return None
        if h.kind == "list":
            e = self.S.kinds.get(h.name)
            return e if isinstance(e, Ty) else None
        if h.kind == "seq" and h.args:
            return h.args[0]
        return None

    def wrap_elem(self, term, ety, st, assume=True):
        """view the Val element `term` with element type ety; assume its type fact"""
        if ety is None:
            return SV("val", term, None)
        if assume:
            self.assume(st, z3.simplify(self.type_pred(ety, term, st, "val")))
        sv = self.from_val(term, ety)
        if assume and sv.k == "ref" and ety.kind in ("list", "dict"):
            pass
        return sv

    # ---------------------------------------------------------------- allocation
    alloc_log = None

    def alloc(self, st, clsname, hint=None):
        r = fresh("new_" + clsname, I)
        if self.alloc_log is not None:
            self.alloc_log.append(r)
        alive = self.heap_get(st, "$alive")
        st.assume(z3.Not(alive[r]))
        st.assume(cls_of(r) == self.cid(clsname))
        self.heap_set(st, "$alive", z3.Store(alive, r, True), fresh_obj=True, hint=clsname)
        return r

    def new_list(self, st, seqterm, ety=None, kind="Local"):
        r = self.alloc(st, "LIST")
        self.heap_set(st, "$seq", z3.Store(self.heap_get(st, "$seq"), r, seqterm), fresh_obj=True)
        if kind == "Local":
            st.assume(role_of(r) == self.rid("Local"))
            h = Ty("list", name="Local", args=[ety] if ety else [])
        else:
            h = Ty("list", name=kind)
        sv = SV("ref", r, h, fresh=True)
        if ety is not None:
            sv.h.args = [ety]
        return sv

    def list_elem_ty(self, sv):
        h = sv.h
        if h is None:
            return None
        if h.kind == "list":
            if h.name == "Local":
                return h.args[0] if h.args else None
            e = self.S.kinds.get(h.name)
            return e if isinstance(e, Ty) else None
        if h.kind == "seq":
            return h.args[0] if h.args else None
        return None

    # ---------------------------------------------------------------- field access
    def static_classes(self, sv):
        if sv.h is not None and sv.h.kind == "obj":
            return sv.h.classes
        return []

    def read_field(self, st, o, name, node):
        classes = self.static_classes(o)
        ty = self.field_ty(classes, name)
        if ty is None:
            if name in self.S.ghost:
                ty = T(self.S.ghost[name] if self.S.ghost[name] != "ref" else "val")
            else:
                self.warnings.append(f"undeclared field {classes}.{name} at line {getattr(node, 'lineno', None)}")
                ty = T("val")
        arr = self.heap_get(st, name)
        hk = self.field_sort_kind(name)
        term = arr[o.t]
        # existence
        if not self.spec_mode and name not in self.S.ghost:
            needs_has = False
            concs = self.concrete_subclasses(classes) if classes else []
            if o.h is not None and o.h.kind == "obj" and getattr(o, "exactcls", None):
                concs = [o.exactcls]
            good = []
            for c in concs:
                if c in self.P.classes and name not in self.P.init_assigned(c):
                    # only classes that can have the field at all
                    needs_has = True
                else:
                    good.append(c)
            if not classes:
                needs_has = False
            if needs_has and any((m, name) in self.S.lazy_ok for c in concs for m in (self.P.mro(c) if c in self.P.classes else [c])):
                needs_has = False
                self.assumed_used.add(f"I-DEF: attribute {name} exists on every {'/'.join(classes)} once Simulation.__init__ has returned")
            if needs_has:
                has = self.heap_get(st, "has$" + name)
                alts = [has[o.t]] + [cls_of(o.t) == self.cid(c) for c in good]
                self.oblige(st, "def", f"attr-{name}-exists", node, z3.Or(alts))
        if hk == "val" and ty.sort() != "val":
            # heap is Val-sorted because another class uses the name differently
            self.assume(st, z3.simplify(self.type_pred(ty, term, st, "val")))
            sv = self.from_val(term, ty)
        else:
            sv = SV(hk, term, ty)
            p = self.type_pred(ty, term, st)
            self.assume(st, z3.simplify(p))
        if ty.kind in ("list", "dict"):
            self.assume(st, z3.And(owner_of(sv.t) == o.t, ftag_of(sv.t) == self.S.atom("field:" + name)))
        return sv

    def store_field(self, st, o, name, sv, node):
        classes = self.static_classes(o)
        ty = self.field_ty(classes, name)
        if ty is None:
            if name in self.S.ghost:
                ty = T(self.S.ghost[name] if self.S.ghost[name] != "ref" else "val")
            else:
                self.warnings.append(f"undeclared field {classes}.{name} (store) at line {getattr(node, 'lineno', None)}")
                ty = T("val")
        hk = self.field_sort_kind(name)
        if ty.kind in ("list", "dict") and sv.k == "ref" and sv.fresh and sv.h is not None and sv.h.name == "Local":
            # a freshly allocated local list becomes the field's list: give it the field's role / owner
            # (sound: role/owner of a fresh reference are unconstrained ghost choices; its Local role
            # assumption is dropped by re-allocating an identical list object)
            r2 = self.alloc(st, "LIST" if ty.kind == "list" else "DICT")
            famly = getattr(sv, "family", None)
            if famly is not None and ty.kind == "list":
                ety2 = self.S.kinds.get(ty.name)
                if isinstance(ety2, Ty) and ety2.kind == "list":
                    # the fresh inner lists created by the comprehension become the lists of kind ety2 held by this list
                    F, S0f = famly
                    jj = z3.Int(f"j!{next(_uid)}")
                    st.assume(smt.forall([jj], z3.Implies(z3.And(0 <= jj, jj < Len(S0f)),
                                                           z3.And(role_of(F(jj)) == self.rid(ety2.name), owner_of(F(jj)) == r2, slot_of(F(jj)) == jj)),
                                         patterns=[F(jj)]))
                sv.family = None
            if ty.kind == "list":
                seq = self.heap_get(st, "$seq")
                outer_seq = seq[sv.t]
                lits = self.literal_seqs.get(sv.t.get_id())
                ety_l = self.S.kinds.get(ty.name)
                if lits is not None and isinstance(ety_l, Ty) and ety_l.kind == "list" and lits and all(
                        z3.is_app(v) and v.decl().name() == "ref" and z3.is_const(v.arg(0)) and v.arg(0).decl().name().startswith("new_LIST")
                        for v in lits):
                    # a literal list of freshly built lists ([[a, b]]): the inner lists become the field's lists of kind ety_l
                    # (same re-allocation trick as for the outer list: an identical object whose ghost role is still free)
                    newelems = []
                    for k_, v in enumerate(lits):
                        ri = self.alloc(st, "LIST")
                        seq = self.heap_get(st, "$seq")
                        self.heap_set(st, "$seq", z3.Store(seq, ri, seq[v.arg(0)]), fresh_obj=True)
                        st.assume(z3.And(role_of(ri) == self.rid(ety_l.name), owner_of(ri) == r2, slot_of(ri) == k_))
                        newelems.append(Val.ref(ri))
                    outer_seq = Empty
                    for v in newelems:
                        outer_seq = Append1(outer_seq, v)
                    seq = self.heap_get(st, "$seq")
                self.heap_set(st, "$seq", z3.Store(seq, r2, outer_seq), fresh_obj=True)
                seq = self.heap_get(st, "$seq")
                # element type obligation
                ety = self.S.kinds.get(ty.name)
                src_ety = self.list_elem_ty(sv)
                if isinstance(ety, Ty) and (src_ety is None or repr(src_ety) != repr(ety)):
                    k = fresh("k", I)
                    s0 = outer_seq
                    self.oblige(st, "type", f"elements-of-{name}", node,
                                smt.forall([k], z3.Implies(z3.And(0 <= k, k < Len(s0)),
                                                          self.type_pred(ety, At(s0, k), st, "val")),
                                          patterns=[At(s0, k)]))
            else:
                for hn in ("$dv", "$dh", "$dk"):
                    h = self.heap_get(st, hn)
                    self.heap_set(st, hn, z3.Store(h, r2, h[sv.t]), fresh_obj=True)
            st.assume(role_of(r2) == self.rid(ty.name))
            st.assume(owner_of(r2) == o.t)
            st.assume(ftag_of(r2) == self.S.atom("field:" + name))
            sv = SV("ref", r2, ty)
        if hk == "val" and ty.sort() != "val":
            t = self.coerce(sv, ty, st, node, f"store-{name}")
            t = self.to_val(SV(ty.sort(), t, ty))
        else:
            t = self.coerce(sv, ty, st, node, f"store-{name}")
        self.heap_set(st, name, z3.Store(self.heap_get(st, name), o.t, t))
        concs = self.concrete_subclasses(classes)
        if any(c in self.P.classes and name not in self.P.init_assigned(c) for c in concs) or not classes or self.fi.name == "__init__":
            has = self.heap_get(st, "has$" + name)
            self.heap_set(st, "has$" + name, z3.Store(has, o.t, True))

    # ================================================================ expressions
    def ev(self, e, st):
        """evaluate expression -> list of (state, SV | Exc)"""
        m = getattr(self, "ev_" + type(e).__name__, None)
        if m is None:
            raise Unsupported("expression " + type(e).__name__, e)
        return m(e, st)

    def ev1(self, e, st):
        """evaluate an expression that cannot fork (spec contexts)"""
        r = self.ev(e, st)
        if len(r) != 1 or isinstance(r[0][1], Exc):
            raise Unsupported("forking expression in non-forking context: " + ast.dump(e)[:80], e)
        return r[0][1]

    def ev_many(self, es, st):
        """evaluate list of expressions left to right -> list of (state, [SV]) | (state, Exc)"""
        res = [(st, [])]
        for e in es:
            nxt = []
            for s, vals in res:
                if isinstance(vals, Exc):
                    nxt.append((s, vals))
                    continue
                for s2, v in self.ev(e, s):
                    if isinstance(v, Exc):
                        nxt.append((s2, v))
                    else:
                        nxt.append((s2, vals + [v]))
            res = nxt
        return res

    def ev_Constant(self, e, st):
        v = e.value
        if v is None:
            return [(st, SV("val", Val.none, T("none")))]
        if v is True or v is False:
            return [(st, SV("bool", z3.BoolVal(v), T("bool")))]
        if isinstance(v, int):
            return [(st, SV("int", z3.IntVal(v), T("int")))]
        if isinstance(v, float):
            if v == float("inf"):
                return [(st, SV("val", Val.pinf, T("num")))]
            if v != v:
                return [(st, SV("val", Val.nanv, T("val")))]
            return [(st, SV("val", Val.realv(z3.RealVal(repr(v))), T("num")))]
        if isinstance(v, str):
            return [(st, SV("str", z3.IntVal(self.S.atom(v)), T("str")))]
        raise Unsupported("constant " + repr(v), e)

    def ev_Name(self, e, st):
        n = e.id
        if n in st.env:
            return [(st, st.env[n])]
        if n == "nan":
            return [(st, SV("val", Val.nanv, T("val")))]
        if n == "True" or n == "False":
            return [(st, SV("bool", z3.BoolVal(n == "True"), T("bool")))]
        if n in self.P.classes or n in self.P.functions or n in self.S.externals:
            return [(st, SV("val", Val.fnv(self.S.fn_id(n)), T("fn")))]
        if self.spec_mode:
            raise Unsupported("unknown name in spec: " + n, e)
        if not self.suppress:
            self.oblige(st, "def", f"local-{n}-assigned", e, z3.BoolVal(False))
        return [(st, SV("val", fresh("undef_" + n, Val), None))]

    def ev_Attribute(self, e, st):
        # module constants / functions
        if isinstance(e.value, ast.Name) and e.value.id in ("random", "ciw", "nx", "np", "math", "copy", "itertools", "tqdm") \
                and e.value.id not in st.env:
            return [(st, SV("val", Val.fnv(self.S.fn_id(e.value.id + "." + e.attr)), T("fn")))]
        out = []
        for s, base in self.ev(e.value, st):
            if isinstance(base, Exc):
                out.append((s, base))
                continue
            out.extend(self.attr_of(s, base, e.attr, e))
        return out

    def attr_of(self, st, base, name, node):
        if base.k == "val" and base.h is not None and base.h.kind == "rec":
            return [(st, SV("val", self.rec_field(name)(Val.rid(base.t)), None))]
        o = self.as_ref(base, st, node, f"receiver-of-{name}")
        # property?
        classes = self.static_classes(o)
        exact = getattr(o, "exactcls", None)
        concs = [exact] if exact else self.concrete_subclasses(classes)
        withprop = [c for c in concs if c in self.P.classes and self.P.lookup(c, name) is not None
                    and self.P.lookup(c, name).is_property]
        if withprop and len(withprop) == len(concs):
            return self.call_method(st, o, name, [], {}, node)
        if withprop and self.spec_mode:
            # contract clauses cannot fork: the property where the class has it, the plain field elsewhere, selected by class
            rest = [c for c in concs if c not in withprop]
            cond = z3.Or([cls_of(o.t) == self.cid(c) for c in withprop])
            r1 = self.call_method(st, SV("ref", o.t, Ty("obj", classes=withprop)), name, [], {}, node)
            if len(r1) != 1 or isinstance(r1[0][1], Exc):
                raise Unsupported("forking property in a contract clause", node)
            if self.feasible(st, z3.Not(cond)):
                v2 = self.read_field(st, SV("ref", o.t, Ty("obj", classes=rest)), name, node)
                return [(st, self.merge(cond, r1[0][1], v2, st))]
            return [(st, r1[0][1])]
        if withprop:
            out = []
            rest = [c for c in concs if c not in withprop]
            for group, isprop in ((withprop, True), (rest, False)):
                cond = z3.Or([cls_of(o.t) == self.cid(c) for c in group])
                s2 = st.copy()
                if not self.noprune and not self.feasible(s2, cond):
                    continue
                s2.assume(cond)
                o2 = SV("ref", o.t, Ty("obj", classes=group))
                if isprop:
                    out.extend(self.call_method(s2, o2, name, [], {}, node))
                else:
                    out.append((s2, self.read_field(s2, o2, name, node)))
            return out
        return [(st, self.read_field(st, o, name, node))]

    _rec_fields = {}

    def rec_field(self, name):
        if name not in self._rec_fields:
            self._rec_fields[name] = z3.Function("Rec_" + name, I, Val)
        return self._rec_fields[name]

    def ev_BoolOp(self, e, st):
        is_and = isinstance(e.op, ast.And)
        res = []

        def go(s, idx, acc_val):
            # acc_val: SV of the value so far
            if idx == len(e.values):
                res.append((s, acc_val))
                return
            if acc_val is None:
                for s2, v in self.ev(e.values[idx], s):
                    if isinstance(v, Exc):
                        res.append((s2, v))
                    else:
                        go(s2, idx + 1, v)
                return
            t = self.truthy(acc_val, s)
            if self.spec_mode or self.quant_facts is not None:
                # no forking in spec / quantified contexts: build a term
                s.guards.append(t if is_and else z3.Not(t))
                v = self.ev1(e.values[idx], s)
                s.guards.pop()
                go(s, idx + 1, self.merge(t if is_and else z3.Not(t), v, acc_val, s))
                return
            for s2, tv in self.branch(s, t):
                if tv == is_and:
                    for s3, v in self.ev(e.values[idx], s2):
                        if isinstance(v, Exc):
                            res.append((s3, v))
                        else:
                            go(s3, idx + 1, v)
                else:
                    res.append((s2, acc_val))
        go(st, 0, None)
        return res

    def merge(self, cond, a, b, st):
        """If(cond, a, b) as SV"""
        if a.k == b.k and a.k != "val":
            return SV(a.k, z3.If(cond, a.t, b.t), a.h if a.k != "ref" else (a.h if repr(a.h) == repr(b.h) else None))
        return SV("val", z3.If(cond, self.to_val(a), self.to_val(b)), None)

    def ev_UnaryOp(self, e, st):
        out = []
        for s, v in self.ev(e.operand, st):
            if isinstance(v, Exc):
                out.append((s, v))
                continue
            if isinstance(e.op, ast.Not):
                out.append((s, SV("bool", z3.Not(self.truthy(v, s)), T("bool"))))
            elif isinstance(e.op, ast.USub):
                if v.k == "int":
                    out.append((s, SV("int", -v.t, T("int"))))
                else:
                    val, d = smt.py_neg(self.to_val(v))
                    self.oblige(s, "def", "neg-operand-numeric", e, d)
                    out.append((s, SV("val", val, T("val"))))
            else:
                raise Unsupported("unary op", e)
        return out

    def ev_BinOp(self, e, st):
        out = []
        for s, vals in self.ev_many([e.left, e.right], st):
            if isinstance(vals, Exc):
                out.append((s, vals))
                continue
            out.append((s, self.binop(e.op, vals[0], vals[1], s, e)))
        return out

    def binop(self, op, a, b, st, node):
        opn = type(op).__name__
        # sequence concatenation
        if opn == "Add" and (a.k == "seq" or b.k == "seq"):
            return SV("seq", Concat(self.seq_of(a, st), self.seq_of(b, st)), a.h)
        if opn == "Add" and a.k == "ref" and a.h is not None and a.h.kind == "list":
            s = Concat(self.seq_of(a, st), self.seq_of(b, st, node))
            return self.new_list(st, s, self.list_elem_ty(a))
        if a.k == "bool" and b.k in ("int", "bool"):
            a = SV("int", z3.If(a.t, z3.IntVal(1), z3.IntVal(0)), T("int"))
        if b.k == "bool" and a.k == "int":
            b = SV("int", z3.If(b.t, z3.IntVal(1), z3.IntVal(0)), T("int"))
        if a.k == "int" and b.k == "int":
            if opn == "Add":
                return SV("int", a.t + b.t, T("int"))
            if opn == "Sub":
                return SV("int", a.t - b.t, T("int"))
            if opn == "Mult":
                return SV("int", a.t * b.t, T("int"))
            if opn in ("FloorDiv", "Mod"):
                self.oblige(st, "def", "divisor-positive", node, b.t > 0)
                return SV("int", (a.t / b.t) if opn == "FloorDiv" else (a.t % b.t), T("int"))
            if opn == "Div":
                self.oblige(st, "def", "divisor-nonzero", node, b.t != 0)
                return SV("val", Val.realv(z3.ToReal(a.t) / z3.ToReal(b.t)), T("num"))
        if a.k in ("str", "ref", "seq") or b.k in ("str", "ref", "seq"):
            if opn == "Mod" and a.k == "str":
                return SV("str", fresh("fmt", I), T("str"))
            self.oblige(st, "def", f"{opn}-operands-numeric", node, z3.BoolVal(False))
            return SV("val", fresh("illop", Val), None)
        va, vb = self.to_val(a), self.to_val(b)
        if opn == "Add":
            v, d = smt.py_add(va, vb)
        elif opn == "Sub":
            v, d = smt.py_sub(va, vb)
        elif opn == "Mult":
            v, d = smt.py_mul(va, vb)
        elif opn == "Div":
            v, d = smt.py_truediv(va, vb)
        elif opn in ("FloorDiv", "Mod"):
            d = z3.And(smt.isint(va), smt.isint(vb), smt.inti(vb) > 0)
            ia, ib = smt.inti(va), smt.inti(vb)
            v = Val.intv(ia / ib) if opn == "FloorDiv" else Val.intv(ia % ib)
        else:
            raise Unsupported("binop " + opn, node)
        self.oblige(st, "def", f"{opn}-operands-compatible", node, d)
        return SV("val", v, T("val"))

    def ev_Compare(self, e, st):
        out = []
        for s, vals in self.ev_many([e.left] + list(e.comparators), st):
            if isinstance(vals, Exc):
                out.append((s, vals))
                continue
            conj = []
            for k, op in enumerate(e.ops):
                conj.append(self.compare(op, vals[k], vals[k + 1], s, e))
            out.append((s, SV("bool", z3.And(conj) if len(conj) > 1 else conj[0], T("bool"))))
        return out

    def compare(self, op, a, b, st, node):
        opn = type(op).__name__
        if opn in ("In", "NotIn"):
            r = self.contains(b, a, st, node)
            return r if opn == "In" else z3.Not(r)
        if opn in ("Is", "IsNot"):
            if a.k == b.k and a.k != "val":
                r = a.t == b.t
            else:
                r = self.to_val(a) == self.to_val(b)
            return r if opn == "Is" else z3.Not(r)
        if opn in ("Eq", "NotEq"):
            if (a.h is not None and a.h.kind == "set") or (b.h is not None and b.h.kind == "set"):
                r = self.set_eq(a, b, st, node)
                return r if opn == "Eq" else z3.Not(r)
            if a.k == b.k and a.k in ("int", "bool", "str", "ref", "seq"):
                r = a.t == b.t
            elif {a.k, b.k} <= {"int", "bool"}:
                r = self.as_int(a, st, node) == self.as_int(b, st, node)
            else:
                r = smt.py_eq(self.to_val(a), self.to_val(b))
            return r if opn == "Eq" else z3.Not(r)
        # ordering
        if a.k in ("int", "bool") and b.k in ("int", "bool"):
            x, y = self.as_int(a, st, node), self.as_int(b, st, node)
            return {"Lt": x < y, "LtE": x <= y, "Gt": x > y, "GtE": x >= y}[opn]
        if a.k in ("str", "ref", "seq") or b.k in ("str", "ref", "seq"):
            if a.k == "seq" and b.k == "seq" and opn == "LtE":
                raise Unsupported("seq ordering", node)
            self.oblige(st, "def", "ordering-operands-numeric", node, z3.BoolVal(False))
            return fresh("illcmp", B)
        va, vb = self.to_val(a), self.to_val(b)
        if opn == "Lt":
            v, d = smt.py_lt(va, vb)
        elif opn == "LtE":
            v, d = smt.py_le(va, vb)
        elif opn == "Gt":
            v, d = smt.py_lt(vb, va)
        else:
            v, d = smt.py_le(vb, va)
        self.oblige(st, "def", "ordering-operands-numeric", node, d)
        return v

    def set_eq(self, a, b, st, node):
        """set(A) == set(B) where one side is the set of a one-element list literal"""
        if getattr(b.h, "lit", None) is None and getattr(a.h, "lit", None) is not None:
            a, b = b, a
        lit = getattr(b.h, "lit", None)
        if lit is None or len(lit) != 1:
            raise Unsupported("general set equality", node)
        c = lit[0]
        A = a.t
        k = z3.Int(f"k!{next(_uid)}")
        return z3.And(Len(A) > 0,
                      smt.forall([k], z3.Implies(z3.And(0 <= k, k < Len(A)), smt.py_eq(At(A, k), c)), patterns=[At(A, k)]))

    def contains(self, container, x, st, node):
        container = self.unwrap_opt(container, st, node, "container")
        if container.k == "ref" and container.h is not None and container.h.kind == "dict":
            dh = self.heap_get(st, "$dh")
            return dh[container.t][self.to_val(x)]
        if container.k in ("ref", "seq") or (container.k == "val"):
            s = self.seq_of(container, st, node)
            xv = self.to_val(x)
            if not self.mentions_bound(s) and not self.mentions_bound(xv):
                st.add_fact(smt.index_fact(s, xv))
            return Contains(s, xv)
        raise Unsupported("in on " + container.k, node)

    def ev_IfExp(self, e, st):
        out = []
        for s, c in self.ev(e.test, st):
            if isinstance(c, Exc):
                out.append((s, c))
                continue
            t = self.truthy(c, s)
            if self.spec_mode or self.quant_facts is not None:
                s.guards.append(t)
                a = self.ev1(e.body, s)
                s.guards.pop()
                s.guards.append(z3.Not(t))
                b = self.ev1(e.orelse, s)
                s.guards.pop()
                out.append((s, self.merge(t, a, b, s)))
                continue
            for s2, tv in self.branch(s, t):
                out.extend(self.ev(e.body if tv else e.orelse, s2))
        return out

    def ev_Tuple(self, e, st):
        out = []
        for s, vals in self.ev_many(e.elts, st):
            if isinstance(vals, Exc):
                out.append((s, vals))
                continue
            if len(vals) == 2:
                h = Ty("tup2", args=[v.h or T("val") for v in vals])
                sv = SV("val", Val.tup2(self.to_val(vals[0]), self.to_val(vals[1])), h)
                sv_parts = vals
                out.append((s, sv))
            else:
                sq = Empty
                for v in vals:
                    sq = Append1(sq, self.to_val(v))
                out.append((s, SV("val", Val.tupv(sq), Ty("tupv"))))
        return out

    def ev_List(self, e, st):
        out = []
        for s, vals in self.ev_many(e.elts, st):
            if isinstance(vals, Exc):
                out.append((s, vals))
                continue
            sq = Empty
            for v in vals:
                sq = Append1(sq, self.to_val(v))
            self.literal_seqs[sq.get_id()] = [self.to_val(v) for v in vals]
            ety = None
            if vals and all(v.h is not None and repr(v.h) == repr(vals[0].h) for v in vals):
                ety = vals[0].h
            if self.spec_mode:
                out.append((s, SV("seq", sq, Ty("seq", args=[ety] if ety else []))))
            else:
                nl = self.new_list(s, sq, ety)
                self.literal_seqs[nl.t.get_id()] = [self.to_val(v) for v in vals]
                out.append((s, nl))
        return out

    def ev_Dict(self, e, st):
        if e.keys:
            raise Unsupported("non-empty dict display", e)
        r = self.alloc(st, "DICT")
        st.assume(role_of(r) == self.rid("Local"))
        dh = self.heap_get(st, "$dh")
        self.heap_set(st, "$dh", z3.Store(dh, r, z3.K(Val, z3.BoolVal(False))), fresh_obj=True)
        dk = self.heap_get(st, "$dk")
        self.heap_set(st, "$dk", z3.Store(dk, r, Empty), fresh_obj=True)
        return [(st, SV("ref", r, Ty("dict", name="Local"), fresh=True))]

    def ev_Subscript(self, e, st):
        out = []
        if isinstance(e.slice, ast.Slice):
            for s, base in self.ev(e.value, st):
                if isinstance(base, Exc):
                    out.append((s, base))
                    continue
                out.extend(self.slice_of(s, base, e.slice, e))
            return out
        for s, vals in self.ev_many([e.value, e.slice], st):
            if isinstance(vals, Exc):
                out.append((s, vals))
                continue
            out.append((s, self.subscript(s, vals[0], vals[1], e)))
        return out

    def unwrap_opt(self, sv, st, node, what="value"):
        """an Optional[object] value used where an object is needed: view it as the object
        (with the definedness obligation that it is one)"""
        if sv.k == "val" and sv.h is not None and sv.h.kind in ("opt", "orfalse"):
            inner = sv.h
            while inner.kind in ("opt", "orfalse"):
                inner = inner.args[0]
            if inner.sort() == "ref":
                return self.as_ref(sv, st, node, what)
        return sv

    def subscript(self, st, base, idx, node):
        base = self.unwrap_opt(base, st, node, "subscripted")
        if base.k == "val" and base.h is not None and base.h.kind == "tup2" or (
                base.k == "val" and base.h is None and idx.k == "int" and z3.is_int_value(idx.t) and False):
            if not (idx.k == "int" and z3.is_int_value(z3.simplify(idx.t))):
                raise Unsupported("tuple index not constant", node)
            k = z3.simplify(idx.t).as_long()
            if k not in (0, 1, -1, -2):
                self.oblige(st, "def", "tuple-index-in-range", node, z3.BoolVal(False))
            part = Val.t0(base.t) if k in (0, -2) else Val.t1(base.t)
            pty = base.h.args[0 if k in (0, -2) else 1]
            if pty.kind == "val" or pty.sort() == "val":
                return SV("val", part, pty if pty.kind != "val" else None)
            return self.from_val(part, pty)
        if base.k == "val" and (base.h is None or base.h.kind in ("val", "union", "opt", "orfalse")) and idx.k == "int" \
                and z3.is_int_value(z3.simplify(idx.t)):
            # untyped value indexed by a constant: must be a 2-tuple or a list
            k = z3.simplify(idx.t).as_long()
            is_t2 = Val.is_tup2(base.t)
            if k in (0, 1):
                seq = self.heap_get(st, "$seq")
                lst = z3.And(Val.is_ref(base.t), cls_of(Val.o(base.t)) == self.cid("LIST"), Len(seq[Val.o(base.t)]) > k)
                self.oblige(st, "def", "subscript-base-indexable", node, z3.Or(is_t2, lst))
                part = z3.If(is_t2, Val.t0(base.t) if k == 0 else Val.t1(base.t), At(seq[Val.o(base.t)], k))
                return SV("val", part, None)
        if base.k == "ref" and base.h is not None and base.h.kind == "dict":
            key = self.to_val(idx)
            dh = self.heap_get(st, "$dh")
            dv = self.heap_get(st, "$dv")
            if base.h.name in self.S.total_dicts:
                self.assumed_used.add("I-CFG: configuration dictionaries (" + ", ".join(sorted(self.S.total_dicts)) +
                                      ") have an entry for every customer class / node they are indexed with")
                self.assume(st, dh[base.t][key])
            else:
                self.oblige(st, "def", "dict-key-present", node, dh[base.t][key])
            kd = self.S.kinds.get(base.h.name)
            vty = kd[1] if isinstance(kd, tuple) else None
            term = dv[base.t][key]
            sv = self.wrap_elem(term, vty, st)
            if sv.k == "ref" and vty is not None and vty.kind in ("list", "dict"):
                self.assume(st, owner_of(sv.t) == owner_of(base.t))
            return sv
        # list / seq
        s = self.seq_of(base, st, node)
        i = self.as_int(idx, st, node, "index")
        isimp = z3.simplify(i)
        if z3.is_int_value(isimp) and isimp.as_long() < 0:
            self.oblige(st, "def", "index-in-range", node, Len(s) >= -isimp.as_long())
            pos = Len(s) + i
        elif self.spec_mode:
            pos = i         # contract clauses index from the front only
        else:
            # Python allows negative computed indices (Ciw: nodes[node_index] with node_index == -1)
            self.oblige(st, "def", "index-in-range", node, z3.And(i >= -Len(s), i < Len(s)))
            pos = z3.If(i < 0, Len(s) + i, i) if not z3.is_int_value(isimp) else i
        ety = self.list_elem_ty(base)
        elem = At(s, pos)
        if not self.spec_mode and self.quant_facts is None:
            # name the element read: keeps terms small and puts At(s, pos) into the E-graph
            named = fresh("el", Val)
            st.assume(named == elem)
            elem = named
        inr = z3.And(0 <= pos, pos < Len(s))
        if self.quant_facts is not None:
            st.guards.append(inr)     # element facts hold for positions in range
            self.assume(st, smt.elem_fact(s, pos))
        else:
            st.assume(z3.Implies(inr, smt.elem_fact(s, pos)))
        try:
            sv = self.wrap_elem(elem, ety, st)
            if sv.k == "ref" and ety is not None and ety.kind in ("list", "dict") and base.k == "ref":
                self.assume(st, z3.And(owner_of(sv.t) == owner_of(base.t), slot_of(sv.t) == pos))
        finally:
            if self.quant_facts is not None:
                st.guards.pop()
        return sv

    def slice_of(self, st, base, sl, node):
        s = self.seq_of(base, st, node)

        def const(x):
            if x is None:
                return None
            r = self.ev1(x, st)
            return self.as_int(r, st, node)
        lo, hi, step = const(sl.lower), const(sl.upper), const(sl.step)
        if step is not None and not (z3.is_int_value(z3.simplify(step)) and z3.simplify(step).as_long() == 1):
            raise Unsupported("slice step", node)
        res = s
        if hi is not None:
            h = z3.simplify(hi)
            if z3.is_int_value(h) and h.as_long() < 0:
                n = z3.If(Len(s) + hi < 0, z3.IntVal(0), Len(s) + hi)
            else:
                n = z3.If(hi > Len(s), Len(s), hi)
                self.oblige(st, "def", "slice-bound-nonneg", node, hi >= 0)
            res = Take(res, n)
        if lo is not None:
            l = z3.simplify(lo)
            if z3.is_int_value(l) and l.as_long() < 0:
                raise Unsupported("negative slice lower bound", node)
            res = Drop(res, z3.If(lo > Len(res), Len(res), lo))
        ety = self.list_elem_ty(base)
        if base.k == "seq" or self.spec_mode:
            return [(st, SV("seq", res, Ty("seq", args=[ety] if ety else [])))]
        named = fresh("slice", Seq)
        st.assume(named == res)
        return [(st, self.new_list(st, named, ety))]

    def ev_Lambda(self, e, st):
        return [(st, SV("val", Val.fnv(self.S.fn_id(f"lambda@{e.lineno}")), FnHint(e, dict(st.env))))]

    # ---- comprehensions --------------------------------------------------------------------------
    def ev_ListComp(self, e, st):
        return self.comprehension(e, st, e.elt)

    def ev_GeneratorExp(self, e, st):
        return self.comprehension(e, st, e.elt)

    def comprehension(self, e, st, elt):
        if len(e.generators) != 1:
            raise Unsupported("nested comprehension", e)
        g = e.generators[0]
        if g.is_async:
            raise Unsupported("async comprehension", e)
        out = []
        for s, it in self.ev(g.iter, st):
            if isinstance(it, Exc):
                out.append((s, it))
                continue
            out.append((s, self.comp_over(s, it, g, elt, e)))
        return out

    def iter_seq(self, it, st, node):
        """(Seq term, element SV maker) for an iterable SV"""
        it = self.unwrap_opt(it, st, node, "iterable")
        if it.k == "ref" and it.h is not None and it.h.kind == "dict":
            kd = self.S.kinds.get(it.h.name)
            kty = kd[0] if isinstance(kd, tuple) else None
            return self.dict_keys(st, it.t), kty
        if it.k in ("ref", "seq", "val"):
            return self.seq_of(it, st, node), self.list_elem_ty(it)
        raise Unsupported("iteration over " + it.k, node)

    def dict_keys(self, st, d):
        """insertion-ordered key sequence of dict object d (named), with the well-formedness fact
        that every listed key is present"""
        dk = self.heap_get(st, "$dk")
        dh = self.heap_get(st, "$dh")
        if self.quant_facts is not None and self.mentions_bound(d):
            return dk[d]
        names = st.known.setdefault("$names", {})
        key = ("dk", dk.get_id(), dh.get_id(), d.get_id())
        if key not in names:
            c = fresh("keys", Seq)
            st.add_fact(c == dk[d])
            j = z3.Int(f"j!{next(_uid)}")
            st.add_fact(smt.forall([j], z3.Implies(z3.And(0 <= j, j < Len(c)), dh[d][At(c, j)]), [At(c, j)]))
            x = z3.Const(f"x!{next(_uid)}", Val)
            st.add_fact(smt.forall([x], dh[d][x] == Contains(c, x), [Contains(c, x)]))
            names[key] = c
        return names[key]

    def bind_target(self, st, target, sv, node):
        if isinstance(target, ast.Name):
            st.env[target.id] = sv
        elif isinstance(target, ast.Tuple):
            if len(target.elts) != 2:
                raise Unsupported("unpacking arity", node)
            for k, tg in enumerate(target.elts):
                part = self.subscript(st, sv if (sv.h is not None and sv.h.kind == "tup2") else SV("val", self.to_val(sv), Ty("tup2", args=[T("val"), T("val")])),
                                      SV("int", z3.IntVal(k), T("int")), node)
                if not (sv.h is not None and sv.h.kind == "tup2"):
                    pass
                self.bind_target(st, tg, part, node)
        else:
            raise Unsupported("binding target", node)

    def comp_over(self, st, it, g, elt, node):
        S0, ety = self.iter_seq(it, st, node)
        if not g.ifs and isinstance(elt, ast.Name) and isinstance(g.target, ast.Name) and elt.id == g.target.id:
            # [x for x in xs]: a copy -- a new list object with exactly the source's contents
            if self.spec_mode:
                return SV("seq", S0, Ty("seq", args=[ety] if ety else []))
            return self.new_list(st, S0, ety)
        k = fresh("ck", I)
        # evaluate filter and element under a symbolic position k
        s2 = st.copy()
        facts = []
        saved_q, saved_d = self.quant_facts, self.defs_collector
        self.quant_facts = facts
        defs = []
        self.defs_collector = defs
        saved_b = self.bound_vars
        self.bound_vars = tuple(saved_b) + (k,)
        saved_al = self.alloc_log
        self.alloc_log = []
        pc0 = len(s2.pc)
        try:
            x = self.wrap_elem(At(S0, k), ety, s2)
            self.bind_target(s2, g.target, x, node)
            conds = []
            for c in g.ifs:
                cv = self.ev1(c, s2)
                t = self.truthy(cv, s2)
                conds.append(t)
                s2.guards.append(t)
            ev = self.ev1(elt, s2)
        finally:
            self.quant_facts, self.defs_collector = saved_q, saved_d
            self.bound_vars = saved_b
            allocated, self.alloc_log = self.alloc_log, saved_al
        if allocated:
            # the element expression creates objects: one family of fresh objects per position
            if conds or self.spec_mode:
                raise Unsupported("allocation inside a filtered comprehension / contract clause", node)
            if saved_al is not None:
                raise Unsupported("allocation inside a nested comprehension", node)
            return self.comp_alloc_family(st, s2, S0, k, ev, allocated, list(s2.pc[pc0:]) + list(facts), defs, node)
        P = z3.And(conds) if conds else z3.BoolVal(True)
        E = self.to_val(ev)
        inrange = z3.And(0 <= k, k < Len(S0))
        fact = z3.And(facts) if facts else z3.BoolVal(True)
        # definedness of the body for every position
        for (oid, kind, label, line, guards, goal) in defs:
            self.oblige(st, kind, label + "-in-comprehension", node,
                        smt.forall([k], z3.Implies(z3.And(inrange, fact, *guards), goal), patterns=[At(S0, k)]))
        # result sequence
        R_ = fresh("comp", Seq)
        idx = z3.Function(f"cidx!{next(_uid)}", I, I)
        inv = z3.Function(f"cinv!{next(_uid)}", I, I)
        j, j2 = z3.Ints(f"j!{next(_uid)} j2!{next(_uid)}")
        Pk = lambda t: z3.substitute(P, (k, t))
        Ek = lambda t: z3.substitute(E, (k, t))
        Fk = lambda t: z3.substitute(fact, (k, t))
        ax = []
        if not conds:
            # pure map: same length, pointwise
            ax.append(Len(R_) == Len(S0))
            ax.append(smt.forall([j], z3.Implies(z3.And(0 <= j, j < Len(S0)),
                                                z3.And(Fk(j), At(R_, j) == Ek(j), smt.elem_fact(R_, j), smt.elem_fact(S0, j))),
                                patterns=[At(R_, j)]))
            # when the map is the identity the result equals the source pointwise; also give the reverse trigger
            ax.append(smt.forall([j], z3.Implies(z3.And(0 <= j, j < Len(S0)), z3.And(Fk(j), At(R_, j) == Ek(j))),
                                patterns=[At(S0, j)]))
        else:
            ax.append(Len(R_) <= Len(S0))
            ax.append(smt.forall([j], z3.Implies(z3.And(0 <= j, j < Len(R_)),
                                                z3.And(0 <= idx(j), idx(j) < Len(S0), Fk(idx(j)), Pk(idx(j)),
                                                       At(R_, j) == Ek(idx(j)), inv(idx(j)) == j,
                                                       smt.elem_fact(R_, j), smt.elem_fact(S0, idx(j)))),
                                patterns=[At(R_, j)]))
            ax.append(smt.forall([j, j2], z3.Implies(z3.And(0 <= j, j < j2, j2 < Len(R_)), idx(j) < idx(j2)),
                                patterns=[z3.MultiPattern(idx(j), idx(j2))]))
            ax.append(smt.forall([j], z3.Implies(z3.And(0 <= j, j < Len(S0), Fk(j), Pk(j)),
                                                z3.And(0 <= inv(j), inv(j) < Len(R_), idx(inv(j)) == j,
                                                       # an element that passes the filter is in the result (stated outright: deriving it
                                                       # needs the term At(R_, inv(j)), which nothing else would create)
                                                       At(R_, inv(j)) == Ek(j), Contains(R_, Ek(j)))),
                                patterns=[At(S0, j)]))
            # nothing passes the filter  <=>  empty result (helps `len(waiting) > 0` tests)
            ax.append(smt.forall([j], z3.Implies(z3.And(0 <= j, j < Len(S0), Fk(j), Pk(j)), Len(R_) > 0),
                                patterns=[At(S0, j)]))
            if isinstance(elt, ast.Name) and isinstance(g.target, ast.Name) and elt.id == g.target.id:
                ax.append(z3.Implies(smt.NoDup(S0), smt.NoDup(R_)))     # a sub-sequence of a duplicate-free sequence
            ax.append(z3.Implies(Len(R_) > 0, z3.And(0 <= idx(0), idx(0) < Len(S0), Pk(idx(0)), Fk(idx(0)), At(R_, 0) == Ek(idx(0)))))
            ax.append(z3.Implies(Len(R_) > 0, z3.And(0 <= idx(Len(R_) - 1), idx(Len(R_) - 1) < Len(S0), Pk(idx(Len(R_) - 1)),
                                                    At(R_, Len(R_) - 1) == Ek(idx(Len(R_) - 1)))))
        for a in ax:
            self.assume(st, a)
        rty = ev.h
        if ev.k != "val" and rty is None:
            rty = T(ev.k) if ev.k in ("int", "bool", "str") else None
        self.comp_info[R_.get_id()] = dict(src=S0, idx=idx, inv=inv, P=Pk, E=Ek, seq=R_)
        if self.spec_mode:
            return SV("seq", R_, Ty("seq", args=[rty] if rty else []))
        return self.new_list(st, R_, rty)

    comp_info = {}

    def comp_alloc_family(self, st, s2, S0, k, ev, allocated, newfacts, defs, node):
        """[f(x) for x in xs] where f allocates: position j owns its own fresh objects F_r(j) (one function per allocation
        site r), distinct from each other and from everything alive before; whatever the element evaluation wrote to
        them (and assumed about them) under the symbolic position k holds for every position"""
        j = z3.Int(f"j!{next(_uid)}")
        inr = lambda t: z3.And(0 <= t, t < Len(S0))
        fam = {r.get_id(): z3.Function(f"fam!{next(_uid)}", I, I) for r in allocated}
        back = z3.Function(f"famidx!{next(_uid)}", I, I)
        tag = z3.Function(f"famtag!{next(_uid)}", I, I)

        def lift(t, idx):
            return z3.substitute(t, [(k, idx)] + [(r, fam[r.get_id()](idx)) for r in allocated])
        alive0 = self.heap_get(st, "$alive")
        pats = lambda idx: [fam[allocated[0].get_id()](idx)]
        # heaps written during the element evaluation: only the fresh objects may have been written
        alloc_ids = {r.get_id() for r in allocated}
        updates = {}
        for hn, final in list(s2.heap.items()):
            base = self.heap_get(st, hn)
            if final.eq(base):
                continue
            t = final
            while not t.eq(base) and z3.is_app(t) and t.decl().kind() == z3.Z3_OP_STORE:
                if t.arg(1).get_id() not in alloc_ids:
                    raise Unsupported(f"a comprehension element writes to an object it did not create ({hn} at {t.arg(1)})", node)
                t = t.arg(0)
            if not t.eq(base):
                raise Unsupported("a comprehension element replaces a heap (call with a frame?)", node)
            updates[hn] = final
        for n_, r in enumerate(allocated):
            F = fam[r.get_id()]
            self.assume(st, smt.forall([j], z3.Implies(inr(j), z3.And(z3.Not(alive0[F(j)]), back(F(j)) == j, tag(F(j)) == n_,
                                                                  cls_of(F(j)) == cls_of(r))), patterns=[F(j)]))
        for f in newfacts:
            # ghost role of the element itself is chosen when the list is stored in a typed field (see store_field)
            if ev.k == "ref" and f.eq(role_of(ev.t) == self.rid("Local")):
                continue
            self.assume(st, smt.forall([j], z3.Implies(inr(j), lift(f, j)), patterns=pats(j)))
        for hn, final in updates.items():
            base = self.heap_get(st, hn)
            A = fresh("famheap", base.sort())
            o = z3.Int(f"o!{next(_uid)}")
            for r in allocated:
                F = fam[r.get_id()]
                self.assume(st, smt.forall([j], z3.Implies(inr(j), A[F(j)] == lift(z3.simplify(final[r]), j)), patterns=[F(j)]))
            self.assume(st, smt.forall([o], z3.Implies(alive0[o], A[o] == base[o]), patterns=[A[o]]))
            self.heap_set(st, hn, A, fresh_obj=True)
        inrange = inr(k)
        for (oid, kind, label, line, guards, goal) in defs:
            self.oblige(st, kind, label + "-in-comprehension", node,
                        smt.forall([k], z3.Implies(z3.And(inrange, *guards), goal), patterns=[At(S0, k)]))
        R_ = fresh("comp", Seq)
        E = self.to_val(ev)
        self.assume(st, Len(R_) == Len(S0))
        self.assume(st, smt.forall([j], z3.Implies(inr(j), z3.And(At(R_, j) == lift(E, j), smt.elem_fact(R_, j))), patterns=[At(R_, j)]))
        sv = self.new_list(st, R_, ev.h if ev.k != "val" else ev.h)
        if ev.k == "ref" and ev.h is not None and ev.h.kind == "list":
            sv.family = (fam[ev.t.get_id()], S0) if ev.t.get_id() in fam else None
        return sv

    def ev_DictComp(self, e, st):
        """{k: f(k) for k in xs}: a new dict whose keys are exactly the members of xs and whose value at each key is f(key)
        (f is evaluated like a list comprehension over xs: its definedness is an obligation for every position)"""
        if len(e.generators) != 1 or e.generators[0].ifs or not isinstance(e.generators[0].target, ast.Name) \
                or not isinstance(e.key, ast.Name) or e.key.id != e.generators[0].target.id:
            raise Unsupported("dict comprehension other than {k: f(k) for k in xs}", e)
        g = e.generators[0]
        out = []
        for s, it in self.ev(g.iter, st):
            if isinstance(it, Exc):
                out.append((s, it))
                continue
            S0, kty = self.iter_seq(it, s, e)
            vals = self.comp_over(s, it, g, e.value, e)
            R_ = self.seq_of(vals, s, e)
            r = self.alloc(s, "DICT")
            s.assume(role_of(r) == self.rid("Local"))
            x = z3.Const(f"x!{next(_uid)}", Val)
            j = z3.Int(f"j!{next(_uid)}")
            hmap = fresh("dch", z3.ArraySort(Val, B))
            vmap = fresh("dcv", z3.ArraySort(Val, Val))
            keys = fresh("dck", Seq)
            self.assume(s, smt.forall([x], hmap[x] == Contains(S0, x), patterns=[hmap[x]]))
            self.assume(s, smt.forall([x], Contains(keys, x) == Contains(S0, x), patterns=[Contains(keys, x)]))
            self.assume(s, smt.forall([j], z3.Implies(z3.And(0 <= j, j < Len(S0)), z3.And(hmap[At(S0, j)], vmap[At(S0, j)] == At(R_, j))),
                                      patterns=[At(S0, j)]))
            self.assume(s, Len(keys) <= Len(S0))
            self.heap_set(s, "$dh", z3.Store(self.heap_get(s, "$dh"), r, hmap), fresh_obj=True)
            self.heap_set(s, "$dv", z3.Store(self.heap_get(s, "$dv"), r, vmap), fresh_obj=True)
            self.heap_set(s, "$dk", z3.Store(self.heap_get(s, "$dk"), r, keys), fresh_obj=True)
            out.append((s, SV("ref", r, Ty("dict", name="Local"), fresh=True)))
        return out

    def ev_Call(self, e, st):
        from . import calls
        return calls.eval_call(self, e, st)

    def ev_JoinedStr(self, e, st):
        return [(st, SV("str", fresh("fstr", I), T("str")))]

    # ================================================================ statements
    def exec_block(self, stmts, st):
        """-> list of (state, outcome) ; outcome: None | ('return', SV|None) | ('raise', Exc) | ('break',) | ('continue',)"""
        states = [(st, None)]
        for stmt in stmts:
            nxt = []
            for s, oc in states:
                if oc is not None:
                    nxt.append((s, oc))
                    continue
                nxt.extend(self.exec_stmt(stmt, s))
            states = nxt
        return states

    def exec_stmt(self, stmt, st):
        m = getattr(self, "ex_" + type(stmt).__name__, None)
        if m is None:
            raise Unsupported("statement " + type(stmt).__name__, stmt)
        return m(stmt, st)

    def ex_Pass(self, stmt, st):
        return [(st, None)]

    def ex_Expr(self, stmt, st):
        if isinstance(stmt.value, ast.Constant):
            return [(st, None)]
        if isinstance(stmt.value, ast.Yield):
            return self.ex_yield(stmt, st)
        out = []
        for s, v in self.ev(stmt.value, st):
            out.append((s, ("raise", v) if isinstance(v, Exc) else None))
        return out

    def ex_yield(self, stmt, st):
        """`yield e` in a generator function under a `yields` contract: e must equal the contract's k-th value, where k is
        the number of values yielded so far (ghost local `_yielded`)"""
        c = self.contract_stack[0] if self.contract_stack else None
        if c is None or not c.yields or self.call_stack:
            raise Unsupported("yield outside a generator function under a `yields` contract", stmt)
        from . import calls
        out = []
        for s, v in (self.ev(stmt.value.value, st) if stmt.value.value is not None else [(st, SV("val", Val.none, T("none")))]):
            if isinstance(v, Exc):
                out.append((s, ("raise", v)))
                continue
            k = s.env["_yielded"]
            e2 = dict(self.entry_env)
            e2.update(s.env)
            lam = ast.parse(c.yields.strip(), mode="eval").body
            e2[lam.args.args[0].arg] = k
            spec = calls.spec_eval_value(self, s, e2, ast.unparse(lam.body))
            self.oblige(s, "yield", "yielded-value-is-the-one-the-contract-prescribes", stmt, self.to_val(v) == self.to_val(spec))
            s.env = dict(s.env)
            s.env["_yielded"] = SV("int", k.t + 1, T("int"))
            out.append((s, None))
        return out

    def ex_Return(self, stmt, st):
        if stmt.value is None:
            return [(st, ("return", None))]
        out = []
        for s, v in self.ev(stmt.value, st):
            out.append((s, ("raise", v) if isinstance(v, Exc) else ("return", v)))
        return out

    def ex_Raise(self, stmt, st):
        name = "Exception"
        if stmt.exc is not None:
            f = stmt.exc.func if isinstance(stmt.exc, ast.Call) else stmt.exc
            if isinstance(f, ast.Name):
                name = f.id
        return [(st, ("raise", Exc(name, stmt)))]

    def ex_Break(self, stmt, st):
        return [(st, ("break",))]

    def ex_Continue(self, stmt, st):
        return [(st, ("continue",))]

    def ex_If(self, stmt, st):
        out = []
        for s, c in self.ev(stmt.test, st):
            if isinstance(c, Exc):
                out.append((s, ("raise", c)))
                continue
            for s2, tv in self.branch(s, self.truthy(c, s)):
                if self.noprune:
                    # trial execution (all syntactic paths): a branch that cannot be executed symbolically is skipped
                    # only if it is infeasible here; were it feasible in a later iteration, the real execution of the
                    # body would stop on the same construct, so nothing is silently missed
                    try:
                        out.extend(self.exec_block(stmt.body if tv else stmt.orelse, s2))
                    except Unsupported:
                        if self.feasible(s2, z3.BoolVal(True)):
                            raise
                else:
                    out.extend(self.exec_block(stmt.body if tv else stmt.orelse, s2))
        return out

    def ex_Assign(self, stmt, st):
        out = []
        for s, v in self.ev(stmt.value, st):
            if isinstance(v, Exc):
                out.append((s, ("raise", v)))
                continue
            res = [(s, None)]
            for tg in stmt.targets:
                nxt = []
                for s2, oc in res:
                    if oc is not None:
                        nxt.append((s2, oc))
                    else:
                        nxt.extend(self.assign_to(s2, tg, v, stmt))
                res = nxt
            out.extend(res)
        return out

    def assign_to(self, st, tg, v, node):
        if isinstance(tg, ast.Name):
            st.env[tg.id] = v
            return [(st, None)]
        if isinstance(tg, ast.Attribute):
            out = []
            for s, base in self.ev(tg.value, st):
                if isinstance(base, Exc):
                    out.append((s, ("raise", base)))
                    continue
                o = self.as_ref(base, s, node, f"target-of-{tg.attr}")
                self.store_field(s, o, tg.attr, v, node)
                out.append((s, None))
            return out
        if isinstance(tg, ast.Tuple):
            if len(tg.elts) == 2 and (v.h is None or v.h.kind != "tup2"):
                v = SV("val", self.to_val(v), Ty("tup2", args=[T("val"), T("val")]))
                self.oblige(st, "def", "unpack-2-tuple", node, Val.is_tup2(v.t))
            res = [(st, None)]
            for k, el in enumerate(tg.elts):
                part = self.subscript(st, v, SV("int", z3.IntVal(k), T("int")), node)
                nxt = []
                for s2, oc in res:
                    nxt.extend(self.assign_to(s2, el, part, node) if oc is None else [(s2, oc)])
                res = nxt
            return res
        if isinstance(tg, ast.Subscript):
            out = []
            for s, vals in self.ev_many([tg.value, tg.slice], st):
                if isinstance(vals, Exc):
                    out.append((s, ("raise", vals)))
                    continue
                self.store_subscript(s, vals[0], vals[1], v, node)
                out.append((s, None))
            return out
        raise Unsupported("assignment target", node)

    def store_subscript(self, st, base, idx, v, node):
        if base.k == "ref" and base.h is not None and base.h.kind == "dict":
            key = self.to_val(idx)
            kd = self.S.kinds.get(base.h.name)
            if isinstance(kd, tuple) and kd[1] is not None and kd[1].kind != "val":
                val = self.coerce(v, kd[1], st, node, "dict-value")
                val = self.to_val(SV(kd[1].sort(), val, kd[1]))
            else:
                val = self.to_val(v)
            dh, dv, dk = self.heap_get(st, "$dh"), self.heap_get(st, "$dv"), self.heap_get(st, "$dk")
            was = dh[base.t][key]
            self.heap_set(st, "$dk", z3.Store(dk, base.t, z3.If(was, dk[base.t], Append1(dk[base.t], key))))
            self.heap_set(st, "$dh", z3.Store(dh, base.t, z3.Store(dh[base.t], key, True)))
            self.heap_set(st, "$dv", z3.Store(dv, base.t, z3.Store(dv[base.t], key, val)))
            return
        r = self.as_ref(base, st, node, "list")
        seq = self.heap_get(st, "$seq")
        s = seq[r.t]
        i = self.as_int(idx, st, node, "index")
        isimp = z3.simplify(i)
        if z3.is_int_value(isimp) and isimp.as_long() < 0:
            self.oblige(st, "def", "index-in-range", node, Len(s) >= -isimp.as_long())
            pos = Len(s) + i
        else:
            self.oblige(st, "def", "index-in-range", node, z3.And(i >= 0, i < Len(s)))
            pos = i
        ety = self.list_elem_ty(r)
        if ety is not None and ety.kind != "val":
            val = self.coerce(v, ety, st, node, "list-element")
            val = self.to_val(SV(ety.sort(), val, ety))
        else:
            val = self.to_val(v)
        self.heap_set(st, "$seq", z3.Store(seq, r.t, Update(s, pos, val)), hint=r.h, fresh_obj=r.fresh)

    def note_seq_write(self, r):
        if self.writes is not None:
            self.writes.add("$seq")

    def ex_AugAssign(self, stmt, st):
        # target op= value  ==  target = target op value  (targets in Ciw are names, attributes, subscripts
        # whose base/index expressions are side-effect free, so double evaluation is harmless)
        load = _as_load(stmt.target)
        # list += list mutates in place
        out = []
        for s, vals in self.ev_many([load, stmt.value], st):
            if isinstance(vals, Exc):
                out.append((s, ("raise", vals)))
                continue
            cur, inc = vals
            if isinstance(stmt.op, ast.Add) and cur.k == "ref" and cur.h is not None and cur.h.kind == "list":
                seq = self.heap_get(s, "$seq")
                self.heap_set(s, "$seq", z3.Store(seq, cur.t, Concat(seq[cur.t], self.seq_of(inc, s, stmt))),
                              hint=cur.h, fresh_obj=cur.fresh)
                if cur.h.name == "Local" and not cur.h.args:
                    e2 = self.list_elem_ty(inc)
                    if e2 is not None:
                        cur.h.args = [e2]
                out.append((s, None))
                continue
            nv = self.binop(stmt.op, cur, inc, s, stmt)
            out.extend(self.assign_to(s, stmt.target, nv, stmt))
        return out

    def ex_Delete(self, stmt, st):
        out = [(st, None)]
        for tg in stmt.targets:
            if not isinstance(tg, ast.Subscript):
                raise Unsupported("del of non-subscript", stmt)
            nxt = []
            for s0, oc in out:
                if oc is not None:
                    nxt.append((s0, oc))
                    continue
                for s, vals in self.ev_many([tg.value, tg.slice], s0):
                    if isinstance(vals, Exc):
                        nxt.append((s, ("raise", vals)))
                        continue
                    r = self.as_ref(vals[0], s, stmt, "list")
                    seq = self.heap_get(s, "$seq")
                    i = self.as_int(vals[1], s, stmt, "index")
                    self.oblige(s, "def", "index-in-range", stmt, z3.And(0 <= i, i < Len(seq[r.t])))
                    self.heap_set(s, "$seq", z3.Store(seq, r.t, RemoveAt(seq[r.t], i)), hint=r.h, fresh_obj=r.fresh)
                    nxt.append((s, None))
            out = nxt
        return out

    def ex_For(self, stmt, st):
        from . import loops
        return loops.exec_for(self, stmt, st)

    def ex_While(self, stmt, st):
        from . import loops
        return loops.exec_while(self, stmt, st)

    def ex_Try(self, stmt, st):
        raise Unsupported("try statement", stmt)


class FnHint(Ty):
    """hint carried by a lambda value"""
    def __init__(self, lam, env):
        super().__init__("fn")
        self.lam = lam
        self.env = env


def _as_load(t):
    import copy as _c
    t2 = _c.deepcopy(t)
    for n in ast.walk(t2):
        if hasattr(n, "ctx"):
            n.ctx = ast.Load()
    return t2
