"""SMT prelude of pyvc: the Val datatype, the Seq theory (uninterpreted, Dafny-prelude-style
triggered axioms) and the Python operator semantics as z3 term builders.

Assumptions of this encoding (reported in every evidence file, see report.ASSUMPTIONS):
  * floats are mathematical reals plus +inf / -inf / nan tokens, no rounding;
  * Decimal values are exact reals tagged `decv`, context rounding is not modelled;
  * ints are unbounded; strings are atoms with equality only;
  * objects are references (Int) with an immutable class id.
"""
import z3

Seq = z3.DeclareSort("PySeq")

_V = z3.Datatype("Val")
_V.declare("none")
_V.declare("boolv", ("b", z3.BoolSort()))
_V.declare("intv", ("i", z3.IntSort()))
_V.declare("realv", ("r", z3.RealSort()))
_V.declare("pinf")
_V.declare("ninf")
_V.declare("nanv")
_V.declare("decv", ("d", z3.RealSort()))
_V.declare("dpinf")
_V.declare("strv", ("s", z3.IntSort()))
_V.declare("ref", ("o", z3.IntSort()))
_V.declare("tup2", ("t0", _V), ("t1", _V))
_V.declare("tupv", ("ts", Seq))
_V.declare("fnv", ("f", z3.IntSort()))
_V.declare("recv", ("rid", z3.IntSort()))      # a DataRecord value, fields via Rec_* functions
Val = _V.create()

I, B, R = z3.IntSort(), z3.BoolSort(), z3.RealSort()

# ---- sequence theory ---------------------------------------------------------------------------
Len = z3.Function("Len", Seq, I)
At = z3.Function("At", Seq, I, Val)
Append1 = z3.Function("Append1", Seq, Val, Seq)
RemoveAt = z3.Function("RemoveAt", Seq, I, Seq)
IndexOf = z3.Function("IndexOf", Seq, Val, I)
Contains = z3.Function("Contains", Seq, Val, B)
NoDup = z3.Function("NoDup", Seq, B)
Take = z3.Function("Take", Seq, I, Seq)
Drop = z3.Function("Drop", Seq, I, Seq)
Concat = z3.Function("Concat", Seq, Seq, Seq)
Update = z3.Function("Update", Seq, I, Val, Seq)
Empty = z3.Const("Empty", Seq)
SumI = z3.Function("SumI", Seq, I)        # sum of a sequence of ints
SumR = z3.Function("SumR", Seq, R)        # sum of a sequence of numbers, as a real
Range = z3.Function("Range", I, Seq)      # list(range(n))
PSum = z3.Function("PSum", Seq, I, R)     # sum of the first n elements (as reals)
PSumI = z3.Function("PSumI", Seq, I, I)   # sum of the first n elements (ints)


def seq_axioms():
    s, s2 = z3.Consts("s s2", Seq)
    x, y = z3.Consts("x y", Val)
    i, j, k, n = z3.Ints("i j k n")
    A = []

    def fa(vs, body, pats):
        import re as _re
        nm = _re.sub(r"[^A-Za-z0-9]+", "_", str(pats[0]))[:40] if pats else ""
        A.append(z3.ForAll(vs, body, patterns=pats, qid=f"seqax{len(A)}_{nm}"))

    fa([s], Len(s) >= 0, [Len(s)])
    A.append(Len(Empty) == 0)
    fa([s], z3.Implies(Len(s) == 0, s == Empty), [Len(s)])
    # Contains / IndexOf.  Term-creation discipline (no matching loops): At -> Contains -> IndexOf and
    # nothing creates new At terms from IndexOf terms (the executor adds the ground instance
    # At(s, IndexOf(s, x)) == x wherever it creates an IndexOf term: see index_fact()).
    # NB z3 applies destructive equality resolution to axioms of the shape  At(s,i) == x ==> ...,
    # so such axioms are written directly in their resolved form.
    fa([s, x], Contains(s, x) == (IndexOf(s, x) >= 0), [Contains(s, x)])
    fa([s, x], z3.And(IndexOf(s, x) >= -1, IndexOf(s, x) < Len(s)), [IndexOf(s, x)])
    # "the element at an in-range position is a member (and IndexOf is its first position)" is NOT a
    # triggered axiom: together with the membership witness it chains forever for positions whose range is
    # unknown.  It is stated wherever an element term is introduced: see elem_fact() and its callers.
    # Append1
    fa([s, x], z3.And(Len(Append1(s, x)) == Len(s) + 1, At(Append1(s, x), Len(s)) == x), [Append1(s, x)])
    fa([s, x, i], z3.Implies(z3.And(0 <= i, i < Len(s)), At(Append1(s, x), i) == At(s, i)),
       [At(Append1(s, x), i)])
    fa([s, x, y], Contains(Append1(s, x), y) == z3.Or(y == x, Contains(s, y)), [Contains(Append1(s, x), y)])
    fa([s, x, y], z3.Implies(Contains(s, y), IndexOf(Append1(s, x), y) == IndexOf(s, y)),
       [IndexOf(Append1(s, x), y)])
    # RemoveAt
    fa([s, k], z3.Implies(z3.And(0 <= k, k < Len(s)), Len(RemoveAt(s, k)) == Len(s) - 1), [RemoveAt(s, k)])
    fa([s, k, i], z3.Implies(z3.And(0 <= k, k < Len(s), 0 <= i, i < Len(s) - 1),
                             At(RemoveAt(s, k), i) == z3.If(i < k, At(s, i), At(s, i + 1))),
       [At(RemoveAt(s, k), i)])
    fa([s, k, y], z3.Implies(z3.And(0 <= k, k < Len(s), Contains(RemoveAt(s, k), y)), Contains(s, y)),
       [Contains(RemoveAt(s, k), y)])
    # an element other than the removed one stays
    fa([s, k, y], z3.Implies(z3.And(0 <= k, k < Len(s), Contains(s, y), y != At(s, k)),
                             Contains(RemoveAt(s, k), y)),
       [z3.MultiPattern(RemoveAt(s, k), Contains(s, y)), Contains(RemoveAt(s, k), y)])      # premise-driven and goal-driven
    # NoDup: "no element occurs twice" as a predicate with structural axioms (cheaper than its two-index definition)
    A.append(NoDup(Empty))
    fa([s, x], NoDup(Append1(s, x)) == z3.And(NoDup(s), z3.Not(Contains(s, x))), [NoDup(Append1(s, x))])
    fa([s, k], z3.Implies(z3.And(NoDup(s), 0 <= k, k < Len(s)), NoDup(RemoveAt(s, k))), [NoDup(RemoveAt(s, k))])
    # the removed element of a duplicate-free sequence is gone
    fa([s, k], z3.Implies(z3.And(NoDup(s), 0 <= k, k < Len(s)), z3.Not(Contains(RemoveAt(s, k), At(s, k)))),
       [z3.MultiPattern(NoDup(s), RemoveAt(s, k))])
    # positions are determined by elements
    fa([s, k], z3.Implies(z3.And(NoDup(s), 0 <= k, k < Len(s)), IndexOf(s, At(s, k)) == k), [z3.MultiPattern(NoDup(s), At(s, k))])
    # list.remove(x) == RemoveAt(s, IndexOf(s, x)): every other member stays (stated directly for removal by value, goal-driven)
    fa([s, x, y], z3.Implies(z3.And(Contains(s, x), Contains(s, y), y != x), Contains(RemoveAt(s, IndexOf(s, x)), y)),
       [Contains(RemoveAt(s, IndexOf(s, x)), y)])
    # Update
    fa([s, k, x], z3.Implies(z3.And(0 <= k, k < Len(s)),
                             z3.And(Len(Update(s, k, x)) == Len(s), At(Update(s, k, x), k) == x)),
       [Update(s, k, x)])
    fa([s, k, x, i], z3.Implies(z3.And(0 <= k, k < Len(s), 0 <= i, i < Len(s), i != k),
                                At(Update(s, k, x), i) == At(s, i)), [At(Update(s, k, x), i)])
    # Take / Drop
    fa([s, n], z3.Implies(z3.And(0 <= n, n <= Len(s)), Len(Take(s, n)) == n), [Take(s, n)])
    fa([s, n, i], z3.Implies(z3.And(0 <= i, i < n, n <= Len(s)), At(Take(s, n), i) == At(s, i)),
       [At(Take(s, n), i)])
    fa([s, n], z3.Implies(z3.And(0 <= n, n <= Len(s)), Len(Drop(s, n)) == Len(s) - n), [Drop(s, n)])
    fa([s, n, i], z3.Implies(z3.And(0 <= n, 0 <= i, i < Len(s) - n), At(Drop(s, n), i) == At(s, i + n)),
       [At(Drop(s, n), i)])
    fa([s, n, x], z3.Implies(z3.And(0 <= n, n <= Len(s), Contains(Take(s, n), x)), Contains(s, x)),
       [Contains(Take(s, n), x)])
    fa([s, n, x], z3.Implies(z3.And(0 <= n, n <= Len(s), Contains(Drop(s, n), x)), Contains(s, x)),
       [Contains(Drop(s, n), x)])
    # Concat
    fa([s, s2], Len(Concat(s, s2)) == Len(s) + Len(s2), [Concat(s, s2)])
    fa([s, s2, i], z3.Implies(z3.And(0 <= i, i < Len(s) + Len(s2)),
                              At(Concat(s, s2), i) == z3.If(i < Len(s), At(s, i), At(s2, i - Len(s)))),
       [At(Concat(s, s2), i)])
    fa([s, s2, x], Contains(Concat(s, s2), x) == z3.Or(Contains(s, x), Contains(s2, x)),
       [Contains(Concat(s, s2), x)])
    A.append(z3.ForAll([x], z3.Not(Contains(Empty, x)), patterns=[Contains(Empty, x)]))
    # Range
    fa([n], z3.Implies(n >= 0, Len(Range(n)) == n), [Range(n)])
    fa([n, i], z3.Implies(z3.And(0 <= i, i < n), At(Range(n), i) == Val.intv(i)), [At(Range(n), i)])
    # Sums (unfold at the end)
    A.append(SumI(Empty) == 0)
    A.append(SumR(Empty) == 0)
    fa([s, x], SumI(Append1(s, x)) == SumI(s) + inti(x), [SumI(Append1(s, x))])
    fa([s, x], SumR(Append1(s, x)) == SumR(s) + numr(x), [SumR(Append1(s, x))])
    # partial sums: unfold one step whenever both the partial sum and the next element are mentioned
    fa([s], PSum(s, 0) == 0, [PSum(s, 0)])
    fa([s], PSumI(s, 0) == 0, [PSumI(s, 0)])
    # (the one-step unfolding of PSum / PSumI is added as a ground fact wherever a contract mentions psum(l, e):
    #  a triggered axiom for it chains through arithmetic and was observed to loop)
    fa([s], PSum(s, Len(s)) == SumR(s), [SumR(s)])
    fa([s], PSumI(s, Len(s)) == SumI(s), [SumI(s)])
    return A


# ---- Val helpers --------------------------------------------------------------------------------
def psum_facts(s, n):
    """ground unfolding of PSum(s, n) and PSumI(s, n) by one step"""
    return [PSum(s, 0) == 0,
            z3.Implies(z3.And(n > 0, n <= Len(s)), PSum(s, n) == PSum(s, n - 1) + numr(At(s, n - 1)))]


def psumi_facts(s, n):
    return [PSumI(s, 0) == 0,
            z3.Implies(z3.And(n > 0, n <= Len(s)), PSumI(s, n) == PSumI(s, n - 1) + inti(At(s, n - 1)))]


def elem_fact(s, i):
    """facts about the element at position i of s, valid when 0 <= i < Len(s)"""
    # stated through IndexOf only: a Contains term here would trigger the membership witness, whose new
    # At term would trigger this fact again (a chain for positions whose range is unknown).  Whenever a
    # goal mentions Contains(s, At(s, i)) the axiom Contains <=> IndexOf >= 0 closes the gap.
    return z3.And(0 <= IndexOf(s, At(s, i)), IndexOf(s, At(s, i)) <= i)


def index_fact(s, x):
    """ground instance accompanying every IndexOf(s, x) term the executor creates"""
    return z3.Implies(IndexOf(s, x) >= 0, At(s, IndexOf(s, x)) == x)


def is_(c, v):
    return getattr(Val, "is_" + c)(v)


def isint(v):       # bool or int
    return z3.Or(Val.is_boolv(v), Val.is_intv(v))


def isfin(v):       # finite float-world number
    return z3.Or(Val.is_boolv(v), Val.is_intv(v), Val.is_realv(v))


def isext(v):       # anything comparable as a number
    return z3.Or(Val.is_boolv(v), Val.is_intv(v), Val.is_realv(v), Val.is_pinf(v), Val.is_ninf(v),
                 Val.is_decv(v), Val.is_dpinf(v))


def inti(v):
    return z3.If(Val.is_boolv(v), z3.If(Val.b(v), 1, 0), Val.i(v))


def numr(v):
    return z3.If(Val.is_boolv(v), z3.If(Val.b(v), z3.RealVal(1), z3.RealVal(0)),
                 z3.If(Val.is_intv(v), z3.ToReal(Val.i(v)),
                       z3.If(Val.is_decv(v), Val.d(v), Val.r(v))))


def rank(v):
    return z3.If(Val.is_ninf(v), -1, z3.If(z3.Or(Val.is_pinf(v), Val.is_dpinf(v)), 1, 0))


def mk_int(t):
    return Val.intv(t)


def mk_bool(t):
    return Val.boolv(t)


def mk_real(t):
    return Val.realv(t)


def _simp(t):
    return z3.simplify(t)


def py_add(a, b):
    """returns (value, defined)"""
    both_int = z3.And(isint(a), isint(b))
    both_fin = z3.And(isfin(a), isfin(b))
    p = z3.Or(z3.And(Val.is_pinf(a), z3.Or(isfin(b), Val.is_pinf(b))), z3.And(isfin(a), Val.is_pinf(b)))
    n = z3.Or(z3.And(Val.is_ninf(a), z3.Or(isfin(b), Val.is_ninf(b))), z3.And(isfin(a), Val.is_ninf(b)))
    decl = z3.Or(z3.And(Val.is_decv(a), z3.Or(Val.is_decv(b), isint(b))), z3.And(isint(a), Val.is_decv(b)))
    dp = z3.Or(z3.And(Val.is_dpinf(a), z3.Or(Val.is_decv(b), isint(b), Val.is_dpinf(b))),
               z3.And(z3.Or(Val.is_decv(a), isint(a)), Val.is_dpinf(b)))
    val = z3.If(both_int, Val.intv(inti(a) + inti(b)),
                z3.If(both_fin, Val.realv(numr(a) + numr(b)),
                      z3.If(p, Val.pinf,
                            z3.If(n, Val.ninf,
                                  z3.If(decl, Val.decv(numr(a) + numr(b)),
                                        z3.If(dp, Val.dpinf, Val.nanv))))))
    return _simp(val), _simp(z3.Or(both_fin, p, n, decl, dp))


def py_neg(a):
    val = z3.If(isint(a), Val.intv(-inti(a)),
                z3.If(Val.is_realv(a), Val.realv(-Val.r(a)),
                      z3.If(Val.is_pinf(a), Val.ninf,
                            z3.If(Val.is_ninf(a), Val.pinf,
                                  z3.If(Val.is_decv(a), Val.decv(-Val.d(a)), Val.nanv)))))
    return _simp(val), _simp(z3.Or(isfin(a), Val.is_pinf(a), Val.is_ninf(a), Val.is_decv(a)))


def py_sub(a, b):
    nb, d1 = py_neg(b)
    v, d2 = py_add(a, nb)
    return v, _simp(z3.And(d1, d2))


def py_mul(a, b):
    both_int = z3.And(isint(a), isint(b))
    both_fin = z3.And(isfin(a), isfin(b))
    decl = z3.Or(z3.And(Val.is_decv(a), z3.Or(Val.is_decv(b), isint(b))), z3.And(isint(a), Val.is_decv(b)))
    val = z3.If(both_int, Val.intv(inti(a) * inti(b)),
                z3.If(both_fin, Val.realv(numr(a) * numr(b)),
                      z3.If(decl, Val.decv(numr(a) * numr(b)), Val.nanv)))
    # products with infinities: defined only for a strictly positive finite partner (result +inf)
    pinf_case = z3.Or(z3.And(Val.is_pinf(a), isfin(b), numr(b) > 0), z3.And(Val.is_pinf(b), isfin(a), numr(a) > 0),
                      z3.And(Val.is_pinf(a), Val.is_pinf(b)))
    val = z3.If(pinf_case, Val.pinf, val)
    return _simp(val), _simp(z3.Or(both_fin, decl, pinf_case))


def py_truediv(a, b):
    both_fin = z3.And(isfin(a), isfin(b))
    decl = z3.Or(z3.And(Val.is_decv(a), z3.Or(Val.is_decv(b), isint(b))), z3.And(isint(a), Val.is_decv(b)))
    nz = numr(b) != 0
    val = z3.If(both_fin, Val.realv(numr(a) / numr(b)), z3.If(decl, Val.decv(numr(a) / numr(b)), Val.nanv))
    # finite / inf = 0.0 ; inf / positive finite = inf
    fin_over_inf = z3.And(isfin(a), z3.Or(Val.is_pinf(b), Val.is_ninf(b)))
    inf_over_fin = z3.And(Val.is_pinf(a), isfin(b), numr(b) > 0)
    val = z3.If(fin_over_inf, Val.realv(0), z3.If(inf_over_fin, Val.pinf, val))
    return _simp(val), _simp(z3.Or(z3.And(z3.Or(both_fin, decl), nz), fin_over_inf, inf_over_fin))


def isextn(v):      # comparable as a number, nan included (every comparison with nan is False)
    return z3.Or(isext(v), Val.is_nanv(v))


def py_lt(a, b):
    """a < b with Python numeric-tower semantics; (value: Bool, defined: Bool)."""
    nonan = z3.And(z3.Not(Val.is_nanv(a)), z3.Not(Val.is_nanv(b)))
    val = z3.And(nonan, z3.Or(rank(a) < rank(b), z3.And(rank(a) == 0, rank(b) == 0, numr(a) < numr(b))))
    return _simp(val), _simp(z3.And(isextn(a), isextn(b)))


def py_le(a, b):
    nonan = z3.And(z3.Not(Val.is_nanv(a)), z3.Not(Val.is_nanv(b)))
    val = z3.And(nonan, z3.Or(rank(a) < rank(b), z3.And(rank(a) == rank(b), z3.Or(rank(a) != 0, numr(a) <= numr(b)))))
    return _simp(val), _simp(z3.And(isextn(a), isextn(b)))


def py_eq(a, b):
    """a == b (always defined).  Numbers compare by value across bool/int/float/Decimal; nan != nan."""
    num = z3.And(isext(a), isext(b))
    anynan = z3.Or(Val.is_nanv(a), Val.is_nanv(b))
    val = z3.If(anynan, z3.BoolVal(False),
                z3.If(num, z3.And(rank(a) == rank(b), z3.Or(rank(a) != 0, numr(a) == numr(b))), a == b))
    return _simp(val)


def is_number(v):   # a non-negative-or-any finite number or +inf, float world or decimal world
    return z3.Or(isfin(v), Val.is_pinf(v), Val.is_decv(v), Val.is_dpinf(v))


_qn = [0]


def forall(vs, body, patterns=None, qid=None):
    """ForAll with the given patterns; if z3 rejects them (ite / connective inside), fall back to inference"""
    _qn[0] += 1
    qid = (qid or "q") + str(_qn[0])
    if patterns:
        try:
            return z3.ForAll(vs, body, patterns=patterns, qid=qid)
        except z3.Z3Exception:
            pass
    return z3.ForAll(vs, body, qid=qid)


def exists(vs, body, patterns=None):
    if patterns:
        try:
            return z3.Exists(vs, body, patterns=patterns)
        except z3.Z3Exception:
            pass
    return z3.Exists(vs, body)


CHECK_SETTINGS = dict(mbqi=False, auto_config=False)


def new_solver(timeout_ms=20000, seed=0, relevancy=None):
    s = z3.Solver()
    s.set("smt.mbqi", False)
    if relevancy is not None:
        s.set("smt.relevancy", relevancy)
    s.set("smt.random_seed", seed)
    s.set("timeout", timeout_ms)
    try:
        s.set("smt.candidate_models", True)
    except Exception:
        pass
    return s
