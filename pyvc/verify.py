"""Unit driver: verify one function (for one receiver class) against its contract and discharge the
generated obligations with z3 (E-matching only) and, for what z3 leaves open, cvc5."""
import os
import subprocess
import tempfile
import time
import traceback
import z3
from . import smt, calls
from .smt import Val, Seq, Len, At
from .types import Ty, parse as T
from .symexec import Executor, SV, Exc, State, Unsupported, fresh, cls_of, I, B, _uid

Z3_TIMEOUT_MS = int(os.environ.get("PYVC_Z3_TIMEOUT_MS", "10000"))
CVC5_TIMEOUT_S = int(os.environ.get("PYVC_CVC5_TIMEOUT_S", "30"))
RETRY = os.environ.get("PYVC_RETRY", "1") == "1"
THOROUGH = os.environ.get("PYVC_THOROUGH", "0") == "1"   # thorough tier: every obligation z3 discharges is also given to cvc5 (cross-check)
FAIL_FAST = int(os.environ.get("PYVC_FAIL_FAST", "3"))     # after this many undischarged obligations in a unit the others get one attempt each


class UnitResult:
    def __init__(self, unit):
        self.unit = unit
        self.status = "ok"          # ok | unsupported | crash
        self.message = ""
        self.obligations = []       # list of dict(id, kind, label, line, verdict, backend, time, detail)
        self.warnings = []
        self.assumed_used = []
        self.inlined = []
        self.src_hash = ""
        self.gen_time = 0.0


def make_executor(program, spec, qualname, recv_cls):
    if "." in qualname:
        c, n = qualname.split(".", 1)
        fi = program.lookup(recv_cls or c, n)
    else:
        fi = program.functions.get(qualname)
    if fi is None:
        raise Unsupported("no such function " + qualname)
    ex = Executor(program, spec, fi, recv_cls)
    ex.cur_owner = [fi.cls]
    ex.loop_index = {}
    ex.comp_info = {}
    ex.call_method = lambda st, o, name, pos, kw, node: calls.call_method(ex, st, o, name, pos, kw, node)
    oe = getattr(spec, "on_event", None)
    ex.on_event = (lambda st, ev, lst, x, node: oe(ex, st, ev, lst, x, node)) if oe else (lambda *a: None)
    return ex, fi


def contract_for(spec, fi, recv_cls):
    key = fi.qualname
    if recv_cls and (recv_cls + "::" + key) in spec.contracts:
        return spec.contracts[recv_cls + "::" + key]
    return spec.contracts.get(key)


def generate(program, spec, qualname, recv_cls=None, case=None):
    """symbolically execute the unit; returns (executor, contract)"""
    ex, fi = make_executor(program, spec, qualname, recv_cls)
    c = contract_for(spec, fi, recv_cls)
    if c is None:
        raise Unsupported("no contract for " + qualname)
    if c.cases:
        if case is None:
            raise Unsupported("contract has cases; generate per case")
        c = [cs for cs in c.cases if cs.case_name == case][0]
        ex.unit_name += f"[{case}]"
    st = State()
    st.epoch = 0
    env = {}
    params = list(fi.params)
    if fi.cls is not None and params and params[0] == "self":
        cn = recv_cls or fi.cls
        self_t = z3.Int("self")
        sv = SV("ref", self_t, Ty("obj", classes=[cn]))
        sv.exactcls = cn
        st.assume(ex.heap_get(st, "$alive")[self_t])
        st.assume(cls_of(self_t) == ex.cid(cn))
        env["self"] = sv
        params = params[1:]
    for p in params:
        tys = c.types.get(p)
        if tys is None:
            env[p] = SV("val", z3.Const(p, Val), None)
        else:
            ty = T(tys)
            t = z3.Const(p, ex.z3sort(ty.sort()))
            env[p] = SV(ty.sort(), t, ty)
            st.assume(z3.simplify(ex.type_pred(ty, t, st)))
    if c.yields:
        env["_yielded"] = SV("int", z3.IntVal(0), T("int"))
        c.never_returns = True          # a generator under contract is an endless stream here; nothing is claimed at exhaustion
    st.env = dict(env)
    for lab, text in c.requires:
        g = calls.spec_eval(ex, st, env, text)
        st.assume(g)
    if c.when is not None:
        st.assume(calls.spec_eval(ex, st, env, c.when))
    ex.entry_alive = ex.heap_get(st, "$alive")
    entry_heap = dict(st.heap)
    ex.entry_old = (entry_heap, dict(env), 0)
    ex.entry_env = dict(env)
    ex.call_stack = []
    ex.normal_exits = []
    ex.contract_stack = [c]
    # vacuity probe: the preconditions must be satisfiable (checked by the solver stage)
    ex.obligations_pre = list(st.pc)
    # lets the loop rule frame writes by the unit's own modifies clauses (parsed lazily, in the state where it is first needed,
    # so that units without such loops see no extra facts)
    ex.unit_mods = None
    ex.unit_mods_src = (entry_heap, dict(env), list(c.modifies))
    results = ex.exec_block(fi.body(), st)
    mods, star, ovar = calls.parse_modifies(ex, _mk_state(entry_heap, st), env, c.modifies)
    for s, oc in results:
        if oc is not None and oc[0] == "raise":
            exc = oc[1]
            allowed = [cond for (name, cond) in c.raises if name.rstrip("!") == exc.name or name == "*"]
            if allowed:
                s0 = _mk_state(entry_heap, s)
                g = z3.Or([calls.spec_eval(ex, s0, env, cond) for cond in allowed])
            else:
                g = z3.BoolVal(False)
            ex.oblige(s, "raises", f"{exc.name}-only-when-declared", _L(exc.line), g)
            continue
        if oc is not None and oc[0] not in ("return",):
            raise Unsupported("break/continue at function level")
        ex.normal_exits.append(list(s.pc))
        res = oc[1] if (oc is not None and oc[1] is not None) else SV("val", Val.none, T("none"))
        if c.returns is not None:
            rty = T(c.returns)
            rt = ex.coerce(res, rty, s, None, "result-type")
            keep = res.h if (rty.kind == "list" and rty.name == "Any" and res.k == "ref" and res.h is not None and res.h.kind == "list") else rty
            res = SV(rty.sort(), rt, keep)
        # conditions under which the contract says an exception is raised must not return normally
        for (name, cond) in c.raises:
            if name.endswith("!"):
                s0 = _mk_state(entry_heap, s)
                ex.oblige(s, "raises", f"{name}-raised-when-declared", None, z3.Not(calls.spec_eval(ex, s0, env, cond)))
        for (gname, otext, vtext) in c.ghost_updates:
            # ghost statement of the contract, executed at the normal exit: ghost[obj] := value (both read in the final state)
            go = calls.spec_eval_value(ex, s, env, otext, old=ex.entry_old, result=res)
            gv = calls.spec_eval_value(ex, s, env, vtext, old=ex.entry_old, result=res)
            go = ex.as_ref(go, s, None)
            kind = ex.S.ghost[gname]
            gt = ex.to_val(gv) if kind == "val" else (ex.as_int(gv, s, None) if kind == "int" else ex.truthy(gv, s))
            ex.heap_set(s, gname, z3.Store(ex.heap_get(s, gname), go.t, gt))
        for lab, text in c.ensures:
            g = calls.spec_eval(ex, s, env, text, old=ex.entry_old, result=res)
            ex.oblige(s, "ensures", lab, None, g)
        for callee, n in c.expect_calls.items():
            got = s.known.get("$calls", {}).get(callee, 0)
            ex.oblige(s, "calls", f"{callee}-called-exactly-{n}-times", None, z3.BoolVal(got == n),
                      meta=dict(got=got))
        if not star:
            frame_obligations(ex, s, entry_heap, mods, ovar, c)
    return ex, c


class _L:
    def __init__(self, line):
        self.lineno = line


def _mk_state(heap, like):
    s = State()
    s.heap = dict(heap)
    s.pc = like.pc
    s.known = like.known
    s.epoch = 0
    return s


def frame_obligations(ex, st, entry_heap, mods, ovar, c):
    s0 = State()
    s0.heap = dict(entry_heap)
    s0.epoch = 0
    alive0 = ex.heap_get(s0, "$alive")
    for hn, final in list(st.heap.items()):
        init = ex.heap_get(s0, hn)
        if final.eq(init):
            continue
        if hn == "$alive":
            if not c.allocates:
                ex.oblige(st, "frame", "no-allocation", None, final == init)
            else:
                allowed = calls.alloc_classes(c)
                if allowed is not None:
                    oa = z3.Int(f"fa!{next(_uid)}")
                    okcls = z3.Or([cls_of(oa) == ex.cid(n) for n in allowed])
                    ex.oblige(st, "frame", "only-declared-classes-allocated", None,
                              smt.forall([oa], z3.Implies(z3.And(final[oa], z3.Not(init[oa])), okcls), patterns=[final[oa]]))
            continue
        if hn.startswith("has$"):
            base = hn[4:]
            key = base
            owners = [c_ for (c_, n_) in ex.S.fields if n_ == base]
            if owners and all(c_ in ex.P.classes and base in ex.P.init_assigned(c_) for c_ in owners):
                continue        # every constructor creates this attribute: has(., base) is constantly true (I-DEF) and this map is never read
        else:
            key = hn
        if key in ("$dv", "$dh", "$dk"):
            preds = mods.get(key, "absent")
        else:
            preds = mods.get(key, "absent")
        if preds is None:
            continue
        o = z3.Int(f"fo!{next(_uid)}")
        if preds == "absent":
            guard = alive0[o]
        else:
            inmod = z3.Or([z3.substitute(p, (ovar, o)) for p in preds])
            guard = z3.And(alive0[o], z3.Not(inmod))
        ex.oblige(st, "frame", f"only-declared-{hn}-written", None,
                  smt.forall([o], z3.Implies(guard, final[o] == init[o]), patterns=[final[o]]))


# ==================================================================================================
_AXIOMS = None


def axioms():
    global _AXIOMS
    if _AXIOMS is None:
        _AXIOMS = smt.seq_axioms()
        # Decimal(str(x)) for a float x is the decimal that repr(x) denotes (uninterpreted `Intended`); trusted facts about it:
        # it has the sign of x and fixes zero (repr never changes the sign of a float)
        from .symexec import Intended
        r = z3.Real("r!int")
        _AXIOMS = list(_AXIOMS) + [z3.ForAll([r], z3.And((r >= 0) == (Intended(r) >= 0), (r > 0) == (Intended(r) > 0)),
                                             patterns=[Intended(r)], qid="intended_sign")]
    return _AXIOMS


_SEQ_SYMS = {"Len", "At", "Append1", "RemoveAt", "IndexOf", "Contains", "Take", "Drop", "Concat", "Update",
             "SumI", "SumR", "Range", "PSum", "PSumI", "Empty", "NoDup", "Intended"}


def _symbols(t, acc, seen):
    stack = [t]
    while stack:
        x = stack.pop()
        i = x.get_id()
        if i in seen:
            continue
        seen.add(i)
        if z3.is_quantifier(x):
            stack.append(x.body())
            for k in range(x.num_patterns()):
                stack.append(x.pattern(k))
            continue
        if z3.is_app(x):
            n = x.decl().name()
            if n in _SEQ_SYMS:
                acc.add(n)
            stack.extend(x.children())
    return acc


_AX_INFO = None


def relevant_axioms(assumptions, goal):
    """prelude axioms that can possibly be instantiated for this obligation: an axiom is enabled when
    all sequence-theory symbols of one of its patterns occur in the obligation or in the body of an
    enabled axiom (fixpoint).  Dropping the others is sound and removes useless instantiation work."""
    global _AX_INFO
    axs = axioms()
    if _AX_INFO is None:
        _AX_INFO = []
        for a in axs:
            if z3.is_quantifier(a):
                pats = []
                for k in range(a.num_patterns()):
                    pats.append(_symbols(a.pattern(k), set(), set()))
                _AX_INFO.append((pats, _symbols(a.body(), set(), set())))
            else:
                _AX_INFO.append((None, _symbols(a, set(), set())))
    avail = set()
    seen = set()
    for f in list(assumptions) + [goal]:
        _symbols(f, avail, seen)
    enabled = [False] * len(axs)
    changed = True
    while changed:
        changed = False
        for k, (pats, body) in enumerate(_AX_INFO):
            if enabled[k]:
                continue
            if pats is None:
                ok = (body - {"Empty"}) <= avail
            else:
                ok = any(p <= avail for p in pats) if pats else True
            if ok:
                enabled[k] = True
                if not body <= avail:
                    avail |= body
                    changed = True
    return [a for a, e in zip(axs, enabled) if e]


def to_smt2(assumptions, goal):
    s = z3.Solver()
    for a in relevant_axioms(assumptions, goal):
        s.add(a)
    for a in assumptions:
        s.add(a)
    s.add(z3.Not(goal))
    return s.to_smt2()


def run_cvc5(smt2, timeout_s=CVC5_TIMEOUT_S):
    txt = smt2.replace("(check-sat)", "(check-sat)\n")
    with tempfile.NamedTemporaryFile("w", suffix=".smt2", delete=False) as f:
        f.write("(set-logic ALL)\n" + txt)
        path = f.name
    try:
        p = subprocess.run(["/usr/bin/cvc5", "--lang=smt2", f"--tlimit={timeout_s * 1000}", path],
                           capture_output=True, text=True, timeout=timeout_s + 10)
        out = p.stdout.strip().splitlines()
        return (out[0] if out else "error: " + p.stderr[:200])
    except subprocess.TimeoutExpired:
        return "timeout"
    finally:
        os.unlink(path)


def discharge(ob, use_cvc5=True, timeout_ms=None, seed=0, quick=False):
    d = _discharge(ob, use_cvc5, timeout_ms, seed, quick)
    if THOROUGH and d["verdict"] == "discharged" and d.get("backend") == "z3":
        # independent second opinion; it never turns a proof into a failure (cvc5 may simply not finish), but a `sat` answer
        # is a disagreement between the back ends and is reported as not discharged
        t1 = time.time()
        try:
            c5 = run_cvc5(to_smt2(ob.assumptions, ob.goal), timeout_s=10)
        except Exception as e:      # pragma: no cover
            c5 = "error: " + str(e)
        d["time"] += time.time() - t1
        d["cross"] = c5
        d["detail"] += f"; cross-check cvc5: {c5}"
        if c5 == "sat":
            d.update(verdict="not-proved", detail=d["detail"] + " (back ends disagree)")
    return d


def _discharge(ob, use_cvc5=True, timeout_ms=None, seed=0, quick=False):
    """-> dict(verdict, backend, time, detail).  quick: one quantified attempt, no retries, no second back end -- used once a
    unit already has FAIL_FAST undischarged obligations (the unit's verdict is decided; the rest only adds detail)"""
    t0 = time.time()
    # stage 1: ground path facts only (most definedness / type / frame obligations need nothing else, and
    # leaving the quantified facts out keeps the instantiation engine quiet); a subset of the assumptions,
    # so `unsat` here is a proof
    ground = [a for a in ob.assumptions if not _has_quantifier(a)]
    if len(ground) < len(ob.assumptions):
        s1 = smt.new_solver(2000, seed)
        for a in relevant_axioms(ground, ob.goal):
            s1.add(a)
        for a in ground:
            s1.add(a)
        s1.add(z3.Not(ob.goal))
        r1 = s1.check()
        if r1 == z3.unsat:
            return dict(verdict="discharged", backend="z3", time=time.time() - t0, detail="ground facts sufficed")
        ground_timed_out = (r1 == z3.unknown)
    else:
        ground_timed_out = False
    axs = relevant_axioms(ob.assumptions, ob.goal)
    base = timeout_ms or Z3_TIMEOUT_MS
    # relevancy level 1 vs 2 changes which instantiations z3 performs; neither dominates, so both are tried
    attempts = [(base, seed, int(os.environ.get("PYVC_REL1", "2")))]
    if RETRY and not quick:
        attempts += [(base, seed, 1 if attempts[0][2] == 2 else 2), (3 * base, seed + 7, 2), (3 * base, seed + 7, 1)]
    for (tmo, sd, rel) in attempts:
        s = smt.new_solver(tmo, sd, rel)
        for a in axs:
            s.add(a)
        for a in ob.assumptions:
            s.add(a)
        s.add(z3.Not(ob.goal))
        r = s.check()
        if r == z3.unsat:
            return dict(verdict="discharged", backend="z3", time=time.time() - t0, detail=f"relevancy={rel} seed={sd}")
        if not (r == z3.unknown and ("timeout" in s.reason_unknown() or "canceled" in s.reason_unknown())):
            break       # saturated or sat: a longer run will not help
    if r == z3.unknown and ground_timed_out and RETRY and not quick:
        # the 2 s ground stage may have been starved on a busy machine: give it a real budget before giving up
        s1 = smt.new_solver(5 * 2000, seed + 3)
        for a in relevant_axioms(ground, ob.goal):
            s1.add(a)
        for a in ground:
            s1.add(a)
        s1.add(z3.Not(ob.goal))
        if s1.check() == z3.unsat:
            return dict(verdict="discharged", backend="z3", time=time.time() - t0, detail="ground facts sufficed (second, longer attempt)")
    dt = time.time() - t0
    reason = s.reason_unknown() if r == z3.unknown else "sat"
    model_txt = ""
    try:
        m = s.model()
        model_txt = model_summary(m)
    except Exception:
        m = None
    verdict = "refuted" if r == z3.sat else ("timeout" if ("timeout" in reason or "canceled" in reason) else "not-proved")
    res = dict(verdict=verdict, backend="z3", time=dt, detail=f"z3: {r} ({reason})", model=model_txt)
    if quick:
        res["detail"] += "; fail-fast: this unit already had undischarged obligations, single attempt only"
    if use_cvc5 and not quick:
        t1 = time.time()
        try:
            c5 = run_cvc5(to_smt2(ob.assumptions, ob.goal))
        except Exception as e:      # pragma: no cover
            c5 = "error: " + str(e)
        res["time"] += time.time() - t1
        res["detail"] += f"; cvc5: {c5}"
        if c5 == "unsat":
            res.update(verdict="discharged", backend="cvc5")
        elif c5 == "sat":
            res.update(verdict="refuted")
    return res


_hq_cache = {}


def _has_quantifier(t):
    i = t.get_id()
    if i in _hq_cache:
        return _hq_cache[i]
    stack = [t]
    seen = set()
    r = False
    while stack:
        x = stack.pop()
        if x.get_id() in seen:
            continue
        seen.add(x.get_id())
        if z3.is_quantifier(x):
            r = True
            break
        stack.extend(x.children())
    _hq_cache[i] = r
    return r


SLOTS = None        # global CPU-slot semaphore shared by every forked worker (set by run.run_units before forking)


class _Slot:
    def __enter__(self):
        if SLOTS is not None:
            SLOTS.acquire()

    def __exit__(self, *a):
        if SLOTS is not None:
            SLOTS.release()


def discharge_all(obs, use_cvc5):
    """discharge the obligations of one unit, fanning out over forked children (the z3 terms live in this
    process's memory, so fork -- not pickling -- is what lets children share them).  Every solver call holds one
    slot of the global semaphore, so the number of solvers running at once never exceeds the core count however
    the obligations are spread over units."""
    import json as _json
    import multiprocessing as _mp
    nproc = int(os.environ.get("PYVC_OB_PROCS", "1"))
    failed = _mp.get_context("fork").Value("i", 0)      # shared by the forked children of this unit

    def solve(ob):
        with _Slot():
            return discharge(ob, use_cvc5, quick=failed.value >= FAIL_FAST)

    def one(ob):
        """every obligation is solved in a process of its own, forked from the state right after the unit's verification conditions
        were generated: z3's behaviour then does not depend on which obligations the same worker happened to solve before
        (that dependence made a few obligations flip between 0.3 s and a timeout)"""
        if os.environ.get("PYVC_FORK_PER_OB", "1") != "1":
            d = solve(ob)
        else:
            r, w = os.pipe()
            pid = os.fork()
            if pid == 0:
                os.close(r)
                try:
                    try:
                        d = solve(ob)
                    except Exception as e:      # pragma: no cover
                        d = dict(verdict="timeout", backend="z3", time=0.0, detail="checker error: " + repr(e))
                    with os.fdopen(w, "w") as f:
                        _json.dump(d, f)
                finally:
                    os._exit(0)
            os.close(w)
            with os.fdopen(r) as f:
                data = f.read()
            os.waitpid(pid, 0)
            try:
                d = _json.loads(data)
            except Exception:
                d = dict(verdict="timeout", backend="z3", time=0.0, detail="solver process produced no verdict")
        if d["verdict"] != "discharged":
            with failed.get_lock():
                failed.value += 1
        return d
    if nproc <= 1 or len(obs) < 8:
        return [one(ob) for ob in obs]
    nproc = min(nproc, max(1, len(obs) // 4))
    chunks = [list(range(k, len(obs), nproc)) for k in range(nproc)]
    children = []
    for idxs in chunks:
        r, w = os.pipe()
        pid = os.fork()
        if pid == 0:
            os.close(r)
            out = {}
            try:
                for i in idxs:
                    try:
                        out[i] = one(obs[i])
                    except Exception as e:          # pragma: no cover
                        out[i] = dict(verdict="timeout", backend="z3", time=0.0, detail="checker error: " + repr(e))
                with os.fdopen(w, "w") as f:
                    _json.dump(out, f)
            finally:
                os._exit(0)
        os.close(w)
        children.append((pid, r, idxs))
    res = [None] * len(obs)
    for pid, r, idxs in children:
        with os.fdopen(r) as f:
            data = f.read()
        os.waitpid(pid, 0)
        try:
            out = _json.loads(data)
        except Exception:
            out = {}
        for i in idxs:
            res[i] = out.get(str(i)) or dict(verdict="timeout", backend="z3", time=0.0, detail="child produced no verdict")
    return res


def model_summary(m, limit=60):
    lines = []
    for d in m.decls():
        n = d.name()
        if d.arity() == 0 and "!" not in n[:1]:
            try:
                lines.append(f"{n} = {m[d]}")
            except Exception:
                pass
        if len(lines) >= limit:
            break
    return "\n".join(lines)


def verify_unit(program, spec, qualname, recv_cls=None, use_cvc5=True, keep=False, case=None):
    unit = (recv_cls + "::" if recv_cls else "") + qualname
    if case is None:
        fi0 = program.get(qualname) if recv_cls is None else program.lookup(recv_cls, qualname.split(".", 1)[1])
        c0 = contract_for(spec, fi0, recv_cls) if fi0 is not None else None
        if c0 is not None and c0.cases:
            total = UnitResult(unit)
            for cs in c0.cases:
                r = verify_unit(program, spec, qualname, recv_cls, use_cvc5, keep, case=cs.case_name)
                if r.status != "ok" and total.status == "ok":
                    total.status, total.message = r.status, r.message
                total.obligations.extend(r.obligations)
                total.warnings = sorted(set(total.warnings) | set(r.warnings))
                total.assumed_used = sorted(set(total.assumed_used) | set(r.assumed_used))
                total.inlined = sorted(set(total.inlined) | set(r.inlined))
                total.src_hash = r.src_hash
                total.gen_time += r.gen_time
                total.vacuous = getattr(total, "vacuous", False) or getattr(r, "vacuous", False)
            return total
    res = UnitResult(unit)
    t0 = time.time()
    slot = _Slot()
    slot.__enter__()            # symbolic execution is CPU-bound too: hold a slot until the solvers take over
    try:
        ex, c = generate(program, spec, qualname, recv_cls, case)
    except Unsupported as u:
        slot.__exit__()
        res.status = "unsupported"
        res.message = str(u)
        return res
    except Exception:
        slot.__exit__()
        res.status = "crash"
        res.message = traceback.format_exc()
        return res
    res.gen_time = time.time() - t0
    res.warnings = sorted(set(ex.warnings))
    res.assumed_used = sorted(ex.assumed_used)
    res.inlined = sorted(ex.inlined)
    res.src_hash = ex.fi.src_hash
    # vacuity probe: requires must not be contradictory
    probe = smt.new_solver(1500)
    for a in axioms():
        probe.add(a)
    for a in ex.obligations_pre:
        probe.add(a)
    pr = probe.check()
    res.vacuous = (pr == z3.unsat)
    # reachability: some normally returning path must be satisfiable (else every `ensures` was proved vacuously)
    if not res.vacuous and not getattr(c, "never_returns", False):
        reachable = False
        for pc in ex.normal_exits:
            pb = smt.new_solver(1500)
            for a in pc:
                if not _has_quantifier(a):
                    pb.add(a)
            if pb.check() != z3.unsat:
                reachable = True
                break
        if not reachable:
            res.vacuous = True
    slot.__exit__()
    verdicts = discharge_all(ex.obligations, use_cvc5)
    for ob, d in zip(ex.obligations, verdicts):
        rec = dict(id=ob.id, kind=ob.kind, label=ob.label, line=ob.line, stack=ob.meta.get("stack"))
        rec.update(d)
        if keep:
            rec["_ob"] = ob
        res.obligations.append(rec)
    if keep:
        res._ex = ex
    return res
