"""Unit driver: verify one function (for one receiver class) against its contract and discharge the
generated obligations with z3 (E-matching only) and, for what z3 leaves open, cvc5."""
import os
import subprocess
import tempfile
import time
import traceback
import z3
from . import smt, calls
from .smt import Val, Seq, Len, At
from .types import Ty, parse as T
from .symexec import Executor, SV, Exc, State, Unsupported, fresh, cls_of, I, B, _uid

Z3_TIMEOUT_MS = int(os.environ.get("PYVC_Z3_TIMEOUT_MS", "30000"))
CVC5_TIMEOUT_S = int(os.environ.get("PYVC_CVC5_TIMEOUT_S", "30"))


class UnitResult:
    def __init__(self, unit):
        self.unit = unit
        self.status = "ok"          # ok | unsupported | crash
        self.message = ""
        self.obligations = []       # list of dict(id, kind, label, line, verdict, backend, time, detail)
        self.warnings = []
        self.assumed_used = []
        self.inlined = []
        self.src_hash = ""
        self.gen_time = 0.0


def make_executor(program, spec, qualname, recv_cls):
    if "." in qualname:
        c, n = qualname.split(".", 1)
        fi = program.lookup(recv_cls or c, n)
    else:
        fi = program.functions.get(qualname)
    if fi is None:
        raise Unsupported("no such function " + qualname)
    ex = Executor(program, spec, fi, recv_cls)
    ex.cur_owner = [fi.cls]
    ex.loop_index = {}
    ex.comp_info = {}
    ex.call_method = lambda st, o, name, pos, kw, node: calls.call_method(ex, st, o, name, pos, kw, node)
    ex.on_event = lambda st, ev, lst, x, node: None
    return ex, fi


def contract_for(spec, fi, recv_cls):
    key = fi.qualname
    if recv_cls and (recv_cls + "::" + key) in spec.contracts:
        return spec.contracts[recv_cls + "::" + key]
    return spec.contracts.get(key)


def generate(program, spec, qualname, recv_cls=None):
    """symbolically execute the unit; returns (executor, obligations)"""
    ex, fi = make_executor(program, spec, qualname, recv_cls)
    c = contract_for(spec, fi, recv_cls)
    if c is None:
        raise Unsupported("no contract for " + qualname)
    st = State()
    st.epoch = 0
    env = {}
    params = list(fi.params)
    if fi.cls is not None and params and params[0] == "self":
        cn = recv_cls or fi.cls
        self_t = z3.Int("self")
        sv = SV("ref", self_t, Ty("obj", classes=[cn]))
        sv.exactcls = cn
        st.assume(ex.heap_get(st, "$alive")[self_t])
        st.assume(cls_of(self_t) == ex.cid(cn))
        env["self"] = sv
        params = params[1:]
    for p in params:
        tys = c.types.get(p)
        if tys is None:
            env[p] = SV("val", z3.Const(p, Val), None)
        else:
            ty = T(tys)
            t = z3.Const(p, ex.z3sort(ty.sort()))
            env[p] = SV(ty.sort(), t, ty)
            st.assume(z3.simplify(ex.type_pred(ty, t, st)))
    st.env = dict(env)
    for lab, text in c.requires:
        g = calls.spec_eval(ex, st, env, text)
        st.assume(g)
    entry_heap = dict(st.heap)
    ex.entry_old = (entry_heap, dict(env), 0)
    ex.entry_env = dict(env)
    ex.call_stack = []
    # vacuity probe: the preconditions must be satisfiable (checked by the solver stage)
    ex.obligations_pre = list(st.pc)
    results = ex.exec_block(fi.body(), st)
    mods, star, ovar = calls.parse_modifies(ex, _mk_state(entry_heap, st), env, c.modifies)
    for s, oc in results:
        if oc is not None and oc[0] == "raise":
            exc = oc[1]
            allowed = [cond for (name, cond) in c.raises if name == exc.name or name == "*"]
            if allowed:
                s0 = _mk_state(entry_heap, s)
                g = z3.Or([calls.spec_eval(ex, s0, env, cond) for cond in allowed])
            else:
                g = z3.BoolVal(False)
            ex.oblige(s, "raises", f"{exc.name}-only-when-declared", _L(exc.line), g)
            continue
        if oc is not None and oc[0] not in ("return",):
            raise Unsupported("break/continue at function level")
        res = oc[1] if (oc is not None and oc[1] is not None) else SV("val", Val.none, T("none"))
        if c.returns is not None:
            rty = T(c.returns)
            rt = ex.coerce(res, rty, s, None, "result-type")
            res = SV(rty.sort(), rt, rty)
        # conditions under which the contract says an exception is raised must not return normally
        for (name, cond) in c.raises:
            if name.endswith("!"):
                s0 = _mk_state(entry_heap, s)
                ex.oblige(s, "raises", f"{name}-raised-when-declared", None, z3.Not(calls.spec_eval(ex, s0, env, cond)))
        for lab, text in c.ensures:
            g = calls.spec_eval(ex, s, env, text, old=ex.entry_old, result=res)
            ex.oblige(s, "ensures", lab, None, g)
        if not star:
            frame_obligations(ex, s, entry_heap, mods, ovar, c)
    return ex, c


class _L:
    def __init__(self, line):
        self.lineno = line


def _mk_state(heap, like):
    s = State()
    s.heap = dict(heap)
    s.pc = like.pc
    s.known = like.known
    s.epoch = 0
    return s


def frame_obligations(ex, st, entry_heap, mods, ovar, c):
    s0 = State()
    s0.heap = dict(entry_heap)
    s0.epoch = 0
    alive0 = ex.heap_get(s0, "$alive")
    for hn, final in list(st.heap.items()):
        init = ex.heap_get(s0, hn)
        if final.eq(init):
            continue
        if hn == "$alive":
            if not c.allocates:
                ex.oblige(st, "frame", "no-allocation", None, final == init)
            continue
        if hn.startswith("has$"):
            base = hn[4:]
            key = base
        else:
            key = hn
        if key in ("$dv", "$dh", "$dk"):
            preds = mods.get(key, "absent")
        else:
            preds = mods.get(key, "absent")
        if preds is None:
            continue
        o = z3.Int(f"fo!{next(_uid)}")
        if preds == "absent":
            guard = alive0[o]
        else:
            inmod = z3.Or([z3.substitute(p, (ovar, o)) for p in preds])
            guard = z3.And(alive0[o], z3.Not(inmod))
        ex.oblige(st, "frame", f"only-declared-{hn}-written", None,
                  smt.forall([o], z3.Implies(guard, final[o] == init[o]), patterns=[final[o]]))


# ==================================================================================================
_AXIOMS = None


def axioms():
    global _AXIOMS
    if _AXIOMS is None:
        _AXIOMS = smt.seq_axioms()
    return _AXIOMS


def to_smt2(assumptions, goal):
    s = z3.Solver()
    for a in axioms():
        s.add(a)
    for a in assumptions:
        s.add(a)
    s.add(z3.Not(goal))
    return s.to_smt2()


def run_cvc5(smt2, timeout_s=CVC5_TIMEOUT_S):
    txt = smt2.replace("(check-sat)", "(check-sat)\n")
    with tempfile.NamedTemporaryFile("w", suffix=".smt2", delete=False) as f:
        f.write("(set-logic ALL)\n" + txt)
        path = f.name
    try:
        p = subprocess.run(["/usr/bin/cvc5", "--lang=smt2", f"--tlimit={timeout_s * 1000}", path],
                           capture_output=True, text=True, timeout=timeout_s + 10)
        out = p.stdout.strip().splitlines()
        return (out[0] if out else "error: " + p.stderr[:200])
    except subprocess.TimeoutExpired:
        return "timeout"
    finally:
        os.unlink(path)


def discharge(ob, use_cvc5=True, timeout_ms=None, seed=0):
    """-> dict(verdict, backend, time, detail)"""
    t0 = time.time()
    s = smt.new_solver(timeout_ms or Z3_TIMEOUT_MS, seed)
    for a in axioms():
        s.add(a)
    for a in ob.assumptions:
        s.add(a)
    s.add(z3.Not(ob.goal))
    r = s.check()
    dt = time.time() - t0
    if r == z3.unsat:
        return dict(verdict="discharged", backend="z3", time=dt, detail="")
    reason = s.reason_unknown() if r == z3.unknown else "sat"
    model_txt = ""
    try:
        m = s.model()
        model_txt = model_summary(m)
    except Exception:
        m = None
    verdict = "refuted" if r == z3.sat else ("timeout" if ("timeout" in reason or "canceled" in reason) else "not-proved")
    res = dict(verdict=verdict, backend="z3", time=dt, detail=f"z3: {r} ({reason})", model=model_txt)
    if use_cvc5:
        t1 = time.time()
        try:
            c5 = run_cvc5(to_smt2(ob.assumptions, ob.goal))
        except Exception as e:      # pragma: no cover
            c5 = "error: " + str(e)
        res["time"] += time.time() - t1
        res["detail"] += f"; cvc5: {c5}"
        if c5 == "unsat":
            res.update(verdict="discharged", backend="cvc5")
        elif c5 == "sat":
            res.update(verdict="refuted")
    return res


def model_summary(m, limit=60):
    lines = []
    for d in m.decls():
        n = d.name()
        if d.arity() == 0 and "!" not in n[:1]:
            try:
                lines.append(f"{n} = {m[d]}")
            except Exception:
                pass
        if len(lines) >= limit:
            break
    return "\n".join(lines)


def verify_unit(program, spec, qualname, recv_cls=None, use_cvc5=True, keep=False):
    unit = (recv_cls + "::" if recv_cls else "") + qualname
    res = UnitResult(unit)
    t0 = time.time()
    try:
        ex, c = generate(program, spec, qualname, recv_cls)
    except Unsupported as u:
        res.status = "unsupported"
        res.message = str(u)
        return res
    except Exception:
        res.status = "crash"
        res.message = traceback.format_exc()
        return res
    res.gen_time = time.time() - t0
    res.warnings = sorted(set(ex.warnings))
    res.assumed_used = sorted(ex.assumed_used)
    res.inlined = sorted(ex.inlined)
    res.src_hash = ex.fi.src_hash
    # vacuity probe: requires must not be contradictory
    probe = smt.new_solver(5000)
    for a in axioms():
        probe.add(a)
    for a in ex.obligations_pre:
        probe.add(a)
    pr = probe.check()
    res.vacuous = (pr == z3.unsat)
    for ob in ex.obligations:
        d = discharge(ob, use_cvc5)
        rec = dict(id=ob.id, kind=ob.kind, label=ob.label, line=ob.line, stack=ob.meta.get("stack"))
        rec.update(d)
        if keep:
            rec["_ob"] = ob
        res.obligations.append(rec)
    if keep:
        res._ex = ex
    return res
