#!/venv/bin/python
"""Run the REAL checks against a seeded change, the way the brief prescribes: git -C /repo apply <patch>, ./check <prop> quick,
git -C /repo checkout -- . ; the evidence files touched are restored from git afterwards.  Records exit code and VIOLATION
lines in seeded/<id>/meta.json.   usage: tools/run_seeded_official.py <seeded-id> [prop ...]"""
import json, os, subprocess, sys
HERE = os.path.dirname(os.path.dirname(os.path.abspath(__file__)))
sid = sys.argv[1]
d = os.path.join(HERE, "seeded", sid)
meta = json.load(open(os.path.join(d, "meta.json")))
props = sys.argv[2:] or [meta["property"]]
assert subprocess.run(["git", "-C", "/repo", "status", "--porcelain"], capture_output=True, text=True).stdout.strip() == "", "/repo not clean"
res = {}
try:
    subprocess.run(["git", "-C", "/repo", "apply", os.path.join(d, "patch.diff")], check=True)
    for p in props:
        r = subprocess.run([os.path.join(HERE, "check"), p, "quick"], capture_output=True, text=True, cwd=HERE)
        lines = [l for l in r.stdout.splitlines() if l.startswith("VIOLATION") or l.startswith("KNOWN-FINDING") or " quick: " in l]
        viol = [l for l in lines if l.startswith("VIOLATION")]
        res[p] = dict(exit=r.returncode, violations=len(viol), first=[l[:200] for l in viol[:3]],
                      summary=[l for l in lines if " quick: " in l][-1:] )
finally:
    subprocess.run(["git", "-C", "/repo", "checkout", "--", "."], check=True)
    subprocess.run(["git", "-C", HERE, "checkout", "--", "evidence"], check=False)
meta["checks"] = dict(meta.get("checks") or {})
meta["checks"].update(res)
json.dump(meta, open(os.path.join(d, "meta.json"), "w"), indent=1)
print(sid, {p: (v["exit"], v["violations"]) for p, v in res.items()})
