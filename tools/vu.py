#!/venv/bin/python
"""dev tool: verify units in parallel and print what is not discharged.  usage: tools/vu.py [Recv::]Qual ..."""
import sys, os, time
HERE = os.path.dirname(os.path.dirname(os.path.abspath(__file__)))
sys.path.insert(0, os.path.join(HERE, ".deps")); sys.path.insert(0, HERE)
from pyvc import run
units = []
for a in sys.argv[1:]:
    if a.startswith("-"):
        continue
    rc, q = a.split("::") if "::" in a else (None, a)
    units.append((q, rc))
t = time.time()
res = run.run_units(units, use_cvc5="--cvc5" in sys.argv)
for r in res:
    n = len(r["obligations"]); d = sum(1 for o in r["obligations"] if o["verdict"] == "discharged")
    print(f"{r['unit']}: {r['status']} {d}/{n} gen={r['gen_time']:.1f}s wall={r['wall']:.1f}s", "VACUOUS" if r["vacuous"] else "")
    if r["status"] != "ok":
        print("   ", r["message"][-1500:])
    for w in r["warnings"]:
        print("    W", w)
    for o in r["obligations"]:
        if o["verdict"] != "discharged" or "-a" in sys.argv:
            print("   ", o["verdict"], o["id"], f"{o['time']:.1f}s", (o.get("stack") or ""), o["detail"][:80])
print(f"total {time.time()-t:.1f}s")
