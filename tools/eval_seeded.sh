#!/bin/bash
# tools/eval_seeded.sh <seeded-id>: confirm a seeded change in a scratch copy of /repo HEAD (never in /repo):
#   demo passes without the change, patch applies, demo fails with it, the pinned test suite still passes.
# Writes seeded/<id>/eval.json.  The scratch copy is removed afterwards.
set -u
id=$1
here=$(cd "$(dirname "$0")/.." && pwd)
d=$here/seeded/$id
scr=$(mktemp -d /tmp/seed_${id}_XXXX)
git -C /repo archive HEAD | tar -x -C "$scr"
cd "$scr"
/venv/bin/python "$d/demo.py" "$scr" > "$scr/.clean.log" 2>&1; clean=$?
if git apply "$d/patch.diff" 2> "$scr/.apply.log"; then applies=true; else applies=false; fi
/venv/bin/python "$d/demo.py" "$scr" > "$scr/.mut.log" 2>&1; mut=$?
/venv/bin/python -m pytest -q -p no:cacheprovider --timeout=900 > "$scr/.tests.log" 2>&1; tests=$?
summary=$(tail -1 "$scr/.tests.log")
head=$(git -C /repo rev-parse --short HEAD)
python3 - "$d/eval.json" <<PY
import json,sys
json.dump(dict(id="$id", repo_head="$head", patch_applies=$([ $applies = true ] && echo True || echo False),
  demo_exit_without_change=$clean, demo_exit_with_change=$mut, tests_exit_with_change=$tests,
  tests_summary="""$summary""".strip(), demo_tail_with_change=open("$scr/.mut.log").read()[-600:]), open(sys.argv[1],"w"), indent=1)
PY
cd /; rm -rf "$scr"
echo "$id clean=$clean applies=$applies mutated=$mut tests=$tests [$summary]"
