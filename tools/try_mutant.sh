#!/bin/sh
# usage: tools/try_mutant.sh <patch.diff> <unit...>   : apply the patch to a scratch copy of /repo and verify units there
D=$(mktemp -d /tmp/mutXXXX)
git -C /repo archive HEAD ciw | tar -x -C $D
(cd $D && git apply --unsafe-paths -p1 --directory=. "$1" 2>&1 || patch -p1 < "$1") | head -3
shift
PYVC_REPO=$D /venv/bin/python /verif/tools/vu.py "$@" 2>&1 | grep -v WARNING | cut -c1-200
rm -rf $D
