import sys, time
import os; H=os.path.dirname(os.path.dirname(os.path.abspath(__file__))); sys.path.insert(0,H+'/.deps'); sys.path.insert(0,H)
import z3
from pyvc.frontend import Program
from pyvc import verify, smt
import contracts
P=Program(); S=contracts.build_spec()
q=sys.argv[1]; pat=sys.argv[2]
rc=None
if '::' in q: rc,q=q.split('::')
case=None
if "[" in q: q,case=q[:-1].split("[")
ex,c=verify.generate(P,S,q,rc,case)
for ob in ex.obligations:
    if pat in ob.id:
        print('=====',ob.id)
        if '-v' in sys.argv:
            for a in ob.assumptions: print('  A:',a)
        print('  G:',ob.goal)
        s=smt.new_solver(20000)
        for a in verify.axioms(): s.add(a)
        for a in ob.assumptions: s.add(a)
        s.add(z3.Not(ob.goal))
        r=s.check(); print(r, s.reason_unknown() if r==z3.unknown else '')
        if r!=z3.unsat and '-m' in sys.argv:
            m=s.model()
            for d in m.decls():
                if d.arity()==0: print('   ',d.name(),'=',m[d])
        if '-x' in sys.argv:
            # try to find which part fails: assert pieces
            from pyvc.smt import *
            g=ob.goal
            print('num assumptions',len(ob.assumptions))
            for a in ob.assumptions:
                print('  A:',str(a)[:300].replace('\n',' '))
