#!/venv/bin/python
"""(re)generate MANIFEST.json from contracts/properties.py and contracts/manifest_notes.py"""
import json, os, sys
HERE = os.path.dirname(os.path.dirname(os.path.abspath(__file__)))
sys.path.insert(0, os.path.join(HERE, ".deps")); sys.path.insert(0, HERE)
import contracts.properties as props
import contracts.manifest_notes as notes
ids = [json.loads(l)["id"] for l in open(os.path.join(HERE, "properties.jsonl"))]
checks = []
for pid in ids:
    if pid not in props.PROPS:
        continue
    units = [(rc + "::" if rc else "") + q for q, rc in props.PROPS[pid]["units"]]
    n = notes.NOTES.get(pid, {})
    checks.append({
        "property_id": pid,
        "quick_cmd": f"./check {pid} quick",
        "thorough_cmd": f"./check {pid} thorough",
        "evidence_file": f"evidence/{pid}.json",
        "replay_cmd_template": "./check --replay {path}",
        "engine": "pyvc",
        "level_claimed": {
            "category": "proof",
            "text": n.get("text", "") + " Functions under contract for this property: " + ", ".join(units) + ".",
            "design_ref": n.get("design_ref", "DESIGN.md section 5 / " + pid),
        },
        "level_note": n.get("note", notes.DEFAULT_NOTE),
        "technique": "contract-based deductive verification of the real code: sidecar contracts, verification conditions generated from the ast of /repo/ciw on every run, discharged by z3 (E-matching) and cvc5",
    })
m = {
    "version": 1,
    "setup_cmd": "./setup.sh",
    "hooks": {"guard": "CIW_VERIF", "enable": "no hooks: contracts, ghost state, monitors and replays are sidecar files under /verif; /repo is read, never instrumented",
              "baseline_off_cmd": "cd /repo && /venv/bin/python -m pytest -q -p no:cacheprovider --timeout=900",
              "source_commits": [], "add_only": True},
    "engines": [{"name": "pyvc", "path": "pyvc/", "serves_properties": [c["property_id"] for c in checks],
                 "kind_free_text": "home-built deductive verifier for the Python subset Ciw is written in: ast of /repo/ciw -> symbolic execution over a typed heap -> verification conditions -> z3 / cvc5; contracts, loop invariants and ghost state in contracts/"}],
    "checks": checks,
    "notes": notes.GENERAL,
    "not_applicable": [{"property_id": pid, "reason": notes.NOT_APPLICABLE.get(pid, "no contract within reach decides this property yet; see DESIGN.md section 7")}
                       for pid in ids if pid not in props.PROPS],
}
json.dump(m, open(os.path.join(HERE, "MANIFEST.json"), "w"), indent=1)
import jsonschema
jsonschema.validate(m, json.load(open("/root/.vp/MANIFEST.schema.json")))
print("MANIFEST ok:", len(checks), "checks,", len(m["not_applicable"]), "not applicable")
