"""dev tool: run the production discharge pipeline on obligations matching a pattern. usage: tools/dis.py Unit[case] pattern"""
import sys, time, os
HERE = os.path.dirname(os.path.dirname(os.path.abspath(__file__)))
sys.path.insert(0, os.path.join(HERE, ".deps")); sys.path.insert(0, HERE)
from pyvc.frontend import Program
from pyvc import verify, run
import contracts
P = Program(); S = contracts.build_spec(); run.install_param_types(P, S)
q = sys.argv[1]; pat = sys.argv[2]
rc = None
if '::' in q: rc, q = q.split('::')
case = None
if "[" in q: q, case = q[:-1].split("[")
ex, c = verify.generate(P, S, q, rc, case)
for ob in ex.obligations:
    if pat in ob.id:
        t = time.time()
        d = verify.discharge(ob, "--cvc5" in sys.argv)
        print(ob.id, d["verdict"], d.get("backend"), f"{time.time()-t:.1f}s", d.get("detail", "")[:100])
