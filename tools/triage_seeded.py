#!/venv/bin/python
"""dev tool: which checks catch a seeded change?  Works on a scratch copy (PYVC_REPO), never on /repo.
usage: tools/triage_seeded.py <seeded-id> [--all-units]
Verifies the units whose source the patch changes (modular verification: a caller is checked against the callee's
contract, so only units whose own body changed can change verdict) -- or every registered unit with --all-units --
and prints, per property, the obligations that are no longer discharged."""
import json, os, subprocess, sys, tempfile, shutil
HERE = os.path.dirname(os.path.dirname(os.path.abspath(__file__)))
sid = sys.argv[1]
d = os.path.join(HERE, "seeded", sid)
scr = tempfile.mkdtemp(prefix=f"tri_{sid}_", dir="/tmp")
try:
    subprocess.run(f"git -C /repo archive HEAD | tar -x -C {scr}", shell=True, check=True)
    subprocess.run(["git", "apply", os.path.join(d, "patch.diff")], cwd=scr, check=True)
    os.environ["PYVC_REPO"] = scr
    sys.path.insert(0, os.path.join(HERE, ".deps")); sys.path.insert(0, HERE)
    from pyvc import run
    from pyvc.frontend import Program
    from contracts import properties
    ledger = json.load(open(os.path.join(HERE, "baseline", "obligations.json")))
    P = Program()
    units = []
    for prop, dd in properties.PROPS.items():
        for (q, rc) in dd["units"]:
            if (q, rc) not in units:
                units.append((q, rc))
    changed = []
    for (q, rc) in units:
        name = (rc + "::" if rc else "") + q
        fi = P.get(q) if rc is None else P.lookup(rc, q.split(".", 1)[1])
        h = fi.src_hash if fi is not None else None
        inl = ledger.get(name, {}).get("inlined", {})
        inl_changed = any((P.get(n).src_hash if P.get(n) is not None else None) != hh for n, hh in inl.items())
        if "--all-units" in sys.argv or ledger.get(name, {}).get("src_hash") != h or inl_changed:
            changed.append((q, rc))
    out = dict(id=sid, units_with_changed_source=[(rc + "::" if rc else "") + q for q, rc in changed], caught_by={}, failed=[])
    if changed:
        res = run.run_units(changed, use_cvc5=False)
        for r in res:
            bad = [o for o in r["obligations"] if o["verdict"] != "discharged"]
            n_led = ledger.get(r["unit"], {}).get("obligations")
            if r["status"] != "ok":
                bad.append(dict(id=r["unit"] + "#" + r["status"], label=r["status"], verdict=r["status"]))
            for o in bad:
                out["failed"].append(o["id"])
                for prop, dd in properties.PROPS.items():
                    if any(((rc + "::" if rc else "") + q) == r["unit"] for q, rc in dd["units"]) and run.owns(dict(label=o.get("label", "")), prop, r["unit"]):
                        out["caught_by"].setdefault(prop, []).append(o["id"])
    print(json.dumps(dict(id=sid, changed=out["units_with_changed_source"], caught_by={k: len(v) for k, v in out["caught_by"].items()},
                          failed=out["failed"][:6]), indent=None))
    json.dump(out, open(os.path.join(d, "triage.json"), "w"), indent=1)
finally:
    shutil.rmtree(scr, ignore_errors=True)
